#!/bin/bash
# usage: tools_seed.sh <seed worktree, e.g. /tmp/seed-C06> <name> <prop> [more props...]
# Confirms a sub-agent's seeded change in a fresh scratch worktree and runs the given checks against it.
set -u
SRC=$1; NAME=$2; shift 2
SV=/tmp/sv-$NAME
git -C /repo worktree remove --force $SV >/dev/null 2>&1
git -C /repo worktree add -f $SV HEAD -q || exit 2
mkdir -p /verif/seeded/$NAME
cp $SRC/SEED/patch.diff $SRC/SEED/demo.py /verif/seeded/$NAME/ 2>/dev/null
cp $SRC/SEED/notes.md /verif/seeded/$NAME/notes.md 2>/dev/null
cd $SV
echo "--- demo on unchanged tree"; PYTHONPATH=$SV timeout 300 /venv/bin/python /verif/seeded/$NAME/demo.py >/tmp/w/demo0.log 2>&1; D0=$?; tail -2 /tmp/w/demo0.log
git apply /verif/seeded/$NAME/patch.diff || { echo "PATCH DOES NOT APPLY"; exit 3; }
echo "--- demo with the change"; PYTHONPATH=$SV timeout 300 /venv/bin/python /verif/seeded/$NAME/demo.py >/tmp/w/demo1.log 2>&1; D1=$?; tail -2 /tmp/w/demo1.log
echo "demo exit unchanged=$D0 changed=$D1"
echo "--- test suite with the change"; PYTHONPATH=$SV /venv/bin/python -m pytest -q -p no:cacheprovider --timeout=900 --continue-on-collection-errors 2>&1 | tail -1 | tee /tmp/w/suite.log
rm -f $SV/safe_sequences_example.pdf
cd /verif
RES=""
for P in "$@"; do
  echo "--- check $P against the change"
  FPVERIF_REPO=$SV ./check $P --tier quick > /tmp/w/seedcheck-$P.log 2>&1; RC=$?
  grep -E "kind=|^VIOLATION" /tmp/w/seedcheck-$P.log | head -3 | cut -c1-300
  echo "$P rc=$RC"; RES="$RES $P:$RC"
done
echo "SUMMARY $NAME demo=$D0/$D1 suite=$(cat /tmp/w/suite.log) checks=$RES"
git -C /repo worktree remove --force $SV
