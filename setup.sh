#!/bin/bash
# Offline setup: make sure hypothesis (in /venv) and jsonschema (in /verif/.deps) are importable.
set -e
cd "$(dirname "$0")"
PY=/venv/bin/python
WH=/opt/veriftools/wheels
if ! $PY -c "import hypothesis" 2>/dev/null; then
  /venv/bin/pip install -q --no-index --find-links $WH hypothesis
fi
if ! PYTHONPATH=/verif/.deps $PY -c "import jsonschema" 2>/dev/null; then
  /venv/bin/pip install -q --no-index --find-links $WH --target /verif/.deps jsonschema >/dev/null 2>&1 || true
fi
$PY -c "import hypothesis, networkx, highspy" 
