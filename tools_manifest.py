#!/venv/bin/python
"""Regenerates MANIFEST.json from the property modules that exist (keeps it valid at all times)."""
import importlib, json, os, sys, glob
HERE=os.path.dirname(os.path.abspath(__file__))
sys.path.insert(0, HERE); sys.path.insert(0, "/repo")
props=[json.loads(l) for l in open(os.path.join(HERE,"properties.jsonl"))]
checks=[]; na=[]
for p in props:
    pid=p["id"]
    path=os.path.join(HERE,"fpverif","props",pid.lower()+".py")
    if not os.path.exists(path):
        na.append({"property_id":pid,"reason":"check not built yet in this revision (planned, see DESIGN.md section 5); not a claim that the technique cannot apply"})
        continue
    mod=importlib.import_module(f"fpverif.props.{pid.lower()}")
    checks.append({
        "property_id":pid,
        "quick_cmd":f"./check {pid} --tier quick",
        "thorough_cmd":f"./check {pid} --tier thorough",
        "evidence_file":f"/verif/evidence/{pid}.json",
        "replay_cmd_template":f"./check {pid} --replay {{path}}",
        "engine":"fpverif",
        "level_claimed":{"category":mod.LEVEL,"text":mod.LEVEL_TEXT,"design_ref":f"DESIGN.md section 5 ({pid})"},
        "level_note":mod.LEVEL_NOTE,
        "technique":mod.TECHNIQUE,
    })
man={
 "version":1,
 "setup_cmd":"./setup.sh",
 "hooks":{"guard":"FLOWPATHS_VERIF","enable":"no source hooks exist: checks observe the public API and monkeypatch SolverWrapper from the harness; ./check exports FLOWPATHS_VERIF=1 for completeness","baseline_off_cmd":"cd /repo && env -u FLOWPATHS_VERIF /venv/bin/python -m pytest -ra -q -p no:cacheprovider --timeout=900 --continue-on-collection-errors","source_commits":[],"add_only":True},
 "engines":[{"name":"fpverif","path":"/verif/fpverif","serves_properties":[c["property_id"] for c in checks],"kind_free_text":"Hypothesis-driven property-based testing harness: 16 seeded shards per check, explicit oracles (reference models, round trips, differential/metamorphic relations), collect-then-shrink, JSON replay files"}],
 "checks":checks,
 "notes":"All checks run against /repo's working tree (PYTHONPATH=/repo, verified at start-up). VERIF_SEED selects the Hypothesis seeds. Exit 0 = held, 1 = VIOLATION line, 2 = harness error.",
 "not_applicable":na,
}
json.dump(man,open(os.path.join(HERE,"MANIFEST.json"),"w"),indent=1)
try:
    sys.path.insert(0, os.path.join(HERE,".deps"))
    import jsonschema
    jsonschema.validate(man,json.load(open(os.path.join(HERE,"schemas","MANIFEST.schema.json"))))
    print("MANIFEST valid;",len(checks),"checks,",len(na),"not yet claimed")
except ImportError:
    print("written (jsonschema unavailable)")
