#!/venv/bin/python
"""Prints the markdown table of the seeded changes of a round (from seeded/*/meta.json)."""
import json, os, sys
rnd = int(sys.argv[1]) if len(sys.argv) > 1 else 2
rows = ["| seeded change | breaks | what it does | needs | caught by | also tried, not caught | history |", "|---|---|---|---|---|---|---|"]
for name in sorted(os.listdir('/verif/seeded')):
    mp = f'/verif/seeded/{name}/meta.json'
    if not os.path.exists(mp):
        continue
    m = json.load(open(mp))
    if m.get('round', 1) != rnd:
        continue
    esc = lambda s: str(s).replace('|', '\\|')
    rows.append(f"| `{name}` | {m['property']} | {esc(m['breaks'])} | {esc(m['needs_to_manifest'])} | {', '.join(m['detected_by']) or '**none**'} | {', '.join(m.get('not_detected_by', [])) or '-'} | {esc(m['history'])} |")
print("\n".join(rows))
