"""Materialise JSON cases into flowpaths model constructions and run them under the exception policy."""
import copy

import networkx as nx

from .common import Crash, graph_from_json, guarded, solver_options

DAG_CLASSES = ["kFlowDecomp", "MinFlowDecomp", "kLeastAbsErrors", "kMinPathError", "kPathCover", "MinPathCover"]
CYC_CLASSES = ["kFlowDecompCycles", "MinFlowDecompCycles", "kLeastAbsErrorsCycles", "kMinPathErrorCycles", "kPathCoverCycles", "MinPathCoverCycles"]
COVER_CLASSES = {"kPathCover", "MinPathCover", "kPathCoverCycles", "MinPathCoverCycles"}
MIN_CLASSES = {"MinFlowDecomp", "MinPathCover", "MinFlowDecompCycles", "MinPathCoverCycles"}
ROUTE_KEY = {c: "paths" for c in DAG_CLASSES}
ROUTE_KEY.update({c: "walks" for c in CYC_CLASSES})
CONSTRAINT_KEY = {c: "subpath_constraints" for c in DAG_CLASSES}
CONSTRAINT_KEY.update({c: "subset_constraints" for c in CYC_CLASSES})


def is_node_mode(case):
    kw = case.get("kw", {})
    return kw.get("flow_attr_origin", kw.get("cover_type", "edge")) == "node"


def materialize_kwargs(case, tier="quick", solver_opts=True):
    """JSON kwargs -> Python kwargs (tuples for edges, types, dict for error_scaling)."""
    cls = case["cls"]
    kw = copy.deepcopy(case.get("kw", {}))
    node = is_node_mode(case)
    out = {}
    for key, val in kw.items():
        if key == "weight_type":
            out[key] = {"int": int, "float": float}.get(val, val)
        elif key in ("subpath_constraints", "subset_constraints"):
            if node:
                # node mode: a constraint is a list of nodes, or (documented for the DAG classes) a list of edges of the input graph
                out[key] = [[(tuple(x) if isinstance(x, list) else x) for x in c] for c in val]
            else:
                out[key] = [[tuple(e) for e in c] for c in val]
        elif key == "elements_to_ignore":
            out[key] = list(val) if node else [tuple(e) for e in val]
        elif key == "error_scaling":
            out[key] = {(e if node else tuple(e)): s for e, s in val}
        elif key == "trusted_edges_for_safety":
            out[key] = [tuple(e) for e in val] if not node else list(val)
        else:
            out[key] = val
    if solver_opts:
        so = dict(solver_options(tier))
        so.update(out.get("solver_options") or {})
        out["solver_options"] = so
    if cls not in COVER_CLASSES:
        out.setdefault("flow_attr", case.get("flow_attr", "flow"))
    return out


class Run:
    """Result of constructing and solving one model."""

    def __init__(self):
        self.model = None
        self.ctor_error = None  # Crash
        self.solve_error = None  # Crash
        self.solved = None
        self.solve_ret = None
        self.solution = None
        self.sol_error = None
        self.objective = None
        self.status = None

    @property
    def crashed(self):
        return self.ctor_error or self.solve_error or self.sol_error


def run_model(case, tier="quick", G=None, kwargs=None, get_objective=True):
    import flowpaths as fp

    r = Run()
    cls = getattr(fp, case["cls"])
    G = G if G is not None else graph_from_json(case["graph"])
    kwargs = kwargs if kwargs is not None else materialize_kwargs(case, tier)
    r.G = G
    r.kwargs = kwargs
    try:
        r.model = guarded(cls, G, **kwargs)
    except Crash as c:
        r.ctor_error = c
        return r
    try:
        r.solve_ret = guarded(r.model.solve)
    except Crash as c:
        r.solve_error = c
        return r
    try:
        r.solved = bool(guarded(r.model.is_solved))
    except Crash as c:
        r.solve_error = c
        return r
    r.status = model_status(r.model)
    if r.solved:
        try:
            r.solution = guarded(r.model.get_solution)
            if get_objective:
                r.objective = guarded(r.model.get_objective_value)
        except Crash as c:
            r.sol_error = c
    return r


def model_status(model):
    try:
        s = getattr(model, "solver", None)
        if s is not None:
            return s.get_model_status()
    except Exception:
        pass
    return None


def timed_out(run):
    """A solver run that hit the (generous) time limit makes a case inconclusive, never a violation."""
    st = run.status
    if st in ("kTimeLimit", "kInterrupt", "kIterationLimit"):
        return True
    m = run.model
    for attr in ("fd_model", "model"):
        sub = getattr(m, attr, None)
        if sub is not None and model_status(sub) in ("kTimeLimit", "kInterrupt", "kIterationLimit"):
            return True
    return False


def flow_of(case, G=None):
    """{edge: value} of the flow attribute (edge mode) or {node: value} (node mode); missing attrs skipped."""
    G = G if G is not None else graph_from_json(case["graph"])
    attr = case.get("flow_attr", "flow")
    if is_node_mode(case):
        return {v: d[attr] for v, d in G.nodes(data=True) if attr in d}
    return {(u, v): d[attr] for u, v, d in G.edges(data=True) if attr in d}


def expand_nodes(G, attr="flow", length_attr=None):
    """Harness-built explicit node expansion: v -> (v|in) -> (v|out) carrying v's value; original edges carry
    nothing.  Independent of NodeExpandedDiGraph (different naming).  Returns (H, node_edge{v:(vin,vout)})."""
    H = nx.DiGraph()
    ne = {}
    for v, d in G.nodes(data=True):
        a, b = f"{v}|in", f"{v}|out"
        H.add_edge(a, b, **({attr: d[attr]} if attr in d else {}))
        ne[v] = (a, b)
    for u, v in G.edges():
        H.add_edge(ne[u][1], ne[v][0])
    return H, ne


def rerun_presolve_off(case, tier="quick", G=None):
    """Same construction with HiGHS presolve disabled.  HiGHS 1.15.1's presolve declares some feasible walk models
    infeasible (reproduced on a clean Highs instance fed the exported MPS file: 'Presolve: Infeasible' vs optimal
    with presolve off).  HiGHS is part of the trusted base, so a verdict that flips with presolve off is recorded
    as inconclusive (solver artefact), never as a violation of flowpaths."""
    kwargs = materialize_kwargs(case, tier)
    so = dict(kwargs.get("solver_options") or {})
    so["presolve"] = "off"
    kwargs["solver_options"] = so
    return run_model(case, tier, G=G, kwargs=kwargs)


def count_artifact(case, tier, n):
    """True if a minimum search returns a different number of routes with HiGHS presolve off (see rerun_presolve_off)."""
    try:
        r2 = rerun_presolve_off(case, tier)
        if not r2.solved or r2.crashed:
            return False
        routes = r2.solution.get(ROUTE_KEY[case["cls"]]) or []
        return len([x for x in routes if x]) != n
    except Exception:
        return False


def solver_artifact(case, tier, r, objective_tol=1e-6):
    """True if the solved status (or the objective) of run `r` changes when presolve is switched off."""
    try:
        r2 = rerun_presolve_off(case, tier)
    except Exception:
        return False
    if r2.crashed:
        return False
    if bool(r2.solved) != bool(r.solved):
        return True
    if r.solved and r2.solved and r.objective is not None and r2.objective is not None:
        try:
            return abs(float(r.objective) - float(r2.objective)) > objective_tol * (1 + abs(float(r.objective)))
        except Exception:
            return False
    return False


class ConstraintSpec:
    """Constraints of a case in comparable form: elements are nodes (node mode) or edge tuples; coverage by count or length."""

    def __init__(self, case, G):
        cls = case["cls"]
        kw = case.get("kw", {})
        self.cyc = cls in CYC_CLASSES
        self.node_mode = is_node_mode(case)
        cons = kw.get(CONSTRAINT_KEY[cls], []) or []
        self.constraints = [[(x if self.node_mode else tuple(x)) for x in c] for c in cons]
        if self.cyc:
            self.constraints = [list(dict.fromkeys(c)) for c in self.constraints]
        self.by_length = (not self.cyc) and kw.get("subpath_constraints_coverage_length") is not None
        if self.by_length:
            self.coverage = kw["subpath_constraints_coverage_length"]
            la = kw.get("length_attr")
            if self.node_mode:
                self.lengths = {v: d.get(la, 1) for v, d in G.nodes(data=True)}
            else:
                self.lengths = {(u, v): d.get(la, 1) for u, v, d in G.edges(data=True)}
        else:
            self.coverage = kw.get("subset_constraints_coverage" if self.cyc else "subpath_constraints_coverage", 1.0)
            self.lengths = None

    def __bool__(self):
        return bool(self.constraints)

    def length(self, x):
        return self.lengths.get(x, 1) if self.lengths is not None else 1

    def elements_of(self, route):
        return set(route) if self.node_mode else set(zip(route[:-1], route[1:]))

    def met_by(self, c, element_set):
        need = sum(self.length(x) for x in c) * self.coverage
        return sum(self.length(x) for x in c if x in element_set) >= need - 1e-9

    def unmet(self, routes):
        """First constraint contained in no single route (to the requested coverage), or None."""
        sets = [self.elements_of(r) for r in routes]
        for c in self.constraints:
            if not any(self.met_by(c, s) for s in sets):
                return c
        return None

    def predicate(self, element_sets):
        """predicate(tuple of indices into element_sets) for the exhaustive route-set search."""
        if not self.constraints:
            return None

        def pred(sub):
            return all(any(self.met_by(c, element_sets[i]) for i in sub) for c in self.constraints)

        return pred
