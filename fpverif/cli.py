"""./check <ID> [--tier quick|thorough] | ./check <ID> --replay <file> | ./check all [--tier ..]"""
import argparse
import os
import sys

from .common import check_repo_binding


def main():
    ap = argparse.ArgumentParser(prog="check")
    ap.add_argument("prop")
    ap.add_argument("--tier", default=os.environ.get("VERIF_TIER", "quick"), choices=["quick", "thorough"])
    ap.add_argument("--replay", default=None)
    ap.add_argument("--seed", type=int, default=None)
    a = ap.parse_args()
    seed = a.seed if a.seed is not None else int(os.environ.get("VERIF_SEED", "1") or 1)
    check_repo_binding()
    from . import runner

    if a.replay:
        case, out = runner.replay_file(a.prop, a.replay, a.tier)
        if out["status"] == "violation":
            from . import known

            kid = known.match(a.prop, case, out)
            if kid:
                print(f"KNOWN-FINDING: property={a.prop} {kid}: {out.get('kind')} {str(out.get('detail'))[:200]}")
                sys.exit(0)
            print(f"VIOLATION property={a.prop} replay={os.path.abspath(a.replay)}")
            sys.exit(1)
        sys.exit(0)
    if a.prop == "all":
        import glob

        rc = 0
        here = os.path.dirname(os.path.abspath(__file__))
        for p in sorted(glob.glob(os.path.join(here, "props", "c[0-9][0-9].py"))):
            pid = os.path.basename(p)[:-3].upper()
            r = runner.run_check(pid, a.tier, seed)
            rc = max(rc, r)
        sys.exit(rc)
    try:
        rc = runner.run_check(a.prop.upper(), a.tier, seed)
    except SystemExit:
        raise
    except BaseException as e:
        import traceback

        traceback.print_exc()
        print(f"HARNESS-ERROR: {type(e).__name__}: {e}")
        sys.exit(2)
    sys.exit(rc)


if __name__ == "__main__":
    main()
