"""One shard of one check: a fresh process running Hypothesis with a seed derived from VERIF_SEED.

usage: python -m fpverif.worker <PROP> <tier> <shard> <nshards> <seed> <outfile> <examples> <deadline_s>
"""
import hashlib
import importlib
import json
import sys
import time

from . import known
from .common import case_hash, check_repo_binding, dumps


class Recorder:
    """Append-only JSONL log of every executed case (collect, then shrink)."""

    def __init__(self, prop_id, path, deadline, max_samples=6):
        self.prop_id = prop_id
        self.f = open(path, "a")
        self.deadline = deadline
        self.max_samples = max_samples
        self.samples_by_label = {}
        self.n_samples = 0
        self.entries = known.load()
        self.seen_buckets = set()
        self.excluded_buckets = set()
        self.skipped = 0
        self.inc_samples = {}

    def expired(self):
        if time.time() > self.deadline:
            self.skipped += 1
            return True
        return False

    @staticmethod
    def bucket(case, out):
        cls = case.get("cls") if isinstance(case, dict) else None
        return f"{cls}|{out.get('kind')}|{out.get('site')}"

    def record(self, case, out):
        """Log the outcome; return the bucket if this is a *new, not known* violation else None."""
        h = case_hash(case)
        rec = {"h": h, "st": out["status"], "nt": out.get("nontrivial", False), "labels": out.get("labels", [])}
        new_bucket = None
        if out["status"] == "violation":
            kid = known.match(self.prop_id, case, out, self.entries)
            rec.update(kind=out.get("kind"), detail=out.get("detail"), site=out.get("site"), facts=out.get("facts"), case=case)
            b = self.bucket(case, out)
            rec["bucket"] = b
            if kid:
                rec["known"] = kid
            elif b not in self.excluded_buckets:
                new_bucket = b
        elif out["status"] in ("inconclusive", "invalid_config"):
            rec["reason"] = out.get("reason")
            rkey = str(out.get("reason"))[:60]
            if self.inc_samples.get(rkey, 0) < 1 and len(self.inc_samples) < 6:
                self.inc_samples[rkey] = 1
                rec["case"] = case
        if out["status"] == "ok" and out.get("nontrivial"):
            # keep a few written-out samples, spread over labels
            key = ",".join(out.get("labels", [])[:3])
            if self.n_samples < self.max_samples and key not in self.samples_by_label:
                self.samples_by_label[key] = 1
                self.n_samples += 1
                rec["case"] = case
        if "case" not in rec:
            rec["c"] = case  # every executed case is kept, in order: lets the runner rebuild a shard's history (state leaks)
        self.f.write(dumps(rec) + "\n")
        self.f.flush()
        return new_bucket

    def note(self, obj):
        self.f.write(dumps({"note": obj}) + "\n")
        self.f.flush()


def derive_seed(seed, prop, shard, rnd=0):
    d = hashlib.sha256(f"{seed}/{prop}/{shard}/{rnd}".encode()).digest()
    return int.from_bytes(d[:8], "big")


def default_make_test(mod, tier, rec, raise_on_new):
    from hypothesis import given

    strat = mod.strategy(tier)

    @given(strat)
    def test(case):
        if rec.expired():
            return
        out = mod.run_case(case, tier)
        b = rec.record(case, out)
        if b is not None and raise_on_new:
            raise AssertionError(f"violation bucket {b}")

    return test


def main(argv):
    prop, tier, shard, nshards, seed, outfile, examples, deadline_s = argv
    shard, nshards, seed, examples = int(shard), int(nshards), int(seed), int(examples)
    deadline = time.time() + float(deadline_s)
    check_repo_binding()
    import hypothesis
    from hypothesis import HealthCheck, Phase, settings

    mod = importlib.import_module(f"fpverif.props.{prop.lower()}")
    rec = Recorder(prop, outfile, deadline)
    raise_on_new = tier == "thorough"

    # Finite sub-domains are enumerated, sharded round-robin (no Hypothesis involved).
    if hasattr(mod, "exhaustive_cases"):
        n = 0
        for i, case in enumerate(mod.exhaustive_cases(tier)):
            if i % nshards != shard:
                continue
            if rec.expired():
                break
            rec.record(case, mod.run_case(case, tier))
            n += 1
        rec.note({"exhaustive_done": not rec.skipped, "exhaustive_cases": n})

    _drive(mod, prop, tier, shard, seed, outfile, examples, deadline, rec, raise_on_new, machine=False)
    if hasattr(mod, "make_machine"):
        n = max(2, mod.MACHINE_EXAMPLES[tier] // nshards)
        _drive(mod, prop, tier, shard, seed, outfile, n, deadline, rec, raise_on_new, machine=True)
    rec.note({"skipped_after_deadline": rec.skipped})


def _drive(mod, prop, tier, shard, seed, outfile, examples, deadline, rec, raise_on_new, machine):
    import hypothesis
    from hypothesis import HealthCheck, Phase, settings

    remaining = examples
    rnd = 100 if machine else 0
    while remaining > 0 and time.time() < deadline:
        phases = [Phase.generate] + ([Phase.shrink] if raise_on_new else [])
        st = settings(
            max_examples=remaining,
            database=None,
            deadline=None,
            derandomize=False,
            report_multiple_bugs=False,
            suppress_health_check=list(HealthCheck),
            phases=phases,
            stateful_step_count=getattr(mod, "STEP_COUNT", {}).get(tier, 30),
        )
        s = derive_seed(seed, prop, shard, rnd)
        before = _count_lines(outfile)
        try:
            if machine:
                from hypothesis.stateful import run_state_machine_as_test

                run_state_machine_as_test(hypothesis.seed(s)(mod.make_machine(tier, rec, raise_on_new)), settings=st)
            else:
                make = getattr(mod, "make_test", None)
                test = make(tier, rec, raise_on_new) if make else default_make_test(mod, tier, rec, raise_on_new)
                hypothesis.seed(s)(settings(st)(test))()
            break  # budget consumed without a new violation
        except AssertionError as e:
            # thorough tier: Hypothesis shrank a new bucket; exclude it and continue with the rest
            msg = str(e)
            if "violation bucket " in msg:
                b = msg.split("violation bucket ", 1)[1].split("\n")[0].strip()
                rec.excluded_buckets.add(b)
                rec.note({"shrunk_bucket": b})
            else:
                raise
        used = _count_lines(outfile) - before
        remaining -= max(used, 1)
        rnd += 1


def _count_lines(p):
    try:
        with open(p) as f:
            return sum(1 for _ in f)
    except FileNotFoundError:
        return 0


if __name__ == "__main__":
    try:
        main(sys.argv[1:])
    except SystemExit:
        raise
    except BaseException as e:  # harness error => non-zero, the runner reports exit 2
        import traceback

        traceback.print_exc()
        sys.exit(3)
