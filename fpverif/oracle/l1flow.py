"""Closest non-negative flow in (scaled) L1 norm, via networkx.network_simplex on the residual formulation.

Different algorithm and library from the MILP under test; exact on integer data (dyadic inputs are scaled by 4).

Reading of the exemptions (see DESIGN.md, C16): nodes without in- or out-edges are free; a declared additional
start may have out-flow >= in-flow, a declared end in-flow >= out-flow (one-sided); with one_sided=False they are
fully free (the literal reading - a lower bound only).
"""
import networkx as nx

K = 4  # data are multiples of 0.25; costs are multiples of 0.25


def grid_of(values, start=4, limit=1 << 16):
    """Smallest power-of-two multiple K of `start` for which every value*K is integral (None if there is none up to limit)."""
    k = start
    while k <= limit:
        if all(abs(v * k - round(v * k)) < 1e-9 for v in values):
            return k
        k *= 2
    return None


def closest_flow_cost(G, f, cost, starts=(), ends=(), one_sided=True, grid=None):
    """G: DiGraph; f: {edge: value >= 0} (edges absent from f have value 0); cost: {edge: scale in [0,1]} default 1.
    Returns the minimum of sum_e cost_e * |x_e - f_e| over x >= 0 conserving at every non-exempt node.
    grid: the values are multiples of 1/grid (default 4); costs are always multiples of 0.25."""
    KV = grid or K
    N = nx.MultiDiGraph()
    HUB = ("__HUB__",)
    starts, ends = set(starts), set(ends)
    imb = {v: 0 for v in G.nodes()}
    for (u, v) in G.edges():
        fe = int(round(f.get((u, v), 0) * KV))
        imb[v] += fe
        imb[u] -= fe
    N.add_node(HUB, demand=0)
    for v in G.nodes():
        N.add_node(v, demand=-imb[v])
    for (u, v) in G.edges():
        if u == v:
            continue
        fe = int(round(f.get((u, v), 0) * KV))
        c = int(round(cost.get((u, v), 1) * K))
        N.add_edge(u, v, weight=c)  # increase x_e (uncapacitated)
        if fe > 0:
            N.add_edge(v, u, weight=c, capacity=fe)  # decrease x_e by at most f_e
    for v in G.nodes():
        free = G.in_degree(v) == 0 or G.out_degree(v) == 0
        s_, e_ = v in starts, v in ends
        if free or (not one_sided and (s_ or e_)):
            N.add_edge(HUB, v, weight=0)
            N.add_edge(v, HUB, weight=0)
        else:
            if s_:
                N.add_edge(HUB, v, weight=0)
            if e_:
                N.add_edge(v, HUB, weight=0)
    total = sum(d["demand"] for _n, d in N.nodes(data=True))
    N.nodes[HUB]["demand"] = -total
    try:
        c, _flow = nx.network_simplex(N)
    except nx.NetworkXUnfeasible:
        return None
    return c / float(K * KV)
