"""Finite product automata over a digraph H with designated S (source) and T (sink):
decide existence of S->T walks with subsequence-containment side conditions.

Greedy left-to-right matching decides "walk contains the edge sequence Q as an in-order subsequence
(with multiplicity)": a walk contains Q iff the greedy pointer reaches len(Q).  The state space
(node x pointer(s) x flag) is finite, so plain BFS is a decision procedure - for DAGs and cyclic graphs alike.
"""
from collections import deque


def _bfs(H, S, T, init, step, accept):
    """Generic BFS over states (node, aux)."""
    start = (S, init)
    seen = {start}
    dq = deque([start])
    while dq:
        v, aux = dq.popleft()
        if v == T and accept(aux):
            return True
        for w in H.successors(v):
            naux = step(aux, (v, w))
            if naux is None:
                continue
            st = (w, naux)
            if st not in seen:
                seen.add(st)
                dq.append(st)
    return False


def exists_walk_through_avoiding(H, S, T, x, Q):
    """Is there an S->T walk that uses edge x and does NOT contain Q as a subsequence?"""
    Q = [tuple(e) for e in Q]
    n = len(Q)
    x = tuple(x)

    def step(aux, e):
        p, used = aux
        if p < n and e == Q[p]:
            p += 1
        if p == n:
            return None  # this walk (and every extension) contains Q
        return (p, used or e == x)

    if n == 0:
        return False
    return _bfs(H, S, T, (0, False), step, lambda aux: aux[1])


def is_safe_for(H, S, T, X, Q):
    """Q is safe w.r.t. trusted edge set X iff some x in X has every S->T walk through x containing Q.
    (If every x had an avoiding walk W_x, {W_x} would be a cover of X none of whose walks contains Q.)
    Edges of X that lie on no S->T walk at all cannot be covered and are skipped."""
    for x in X:
        if not exists_walk_using(H, S, T, x):
            continue
        if not exists_walk_through_avoiding(H, S, T, x, Q):
            return True
    return False


def exists_walk_using(H, S, T, x):
    x = tuple(x)
    return _bfs(H, S, T, False, lambda aux, e: aux or e == x, lambda aux: aux)


def exists_walk_containing_both(H, S, T, Q1, Q2):
    Q1 = [tuple(e) for e in Q1]
    Q2 = [tuple(e) for e in Q2]
    n1, n2 = len(Q1), len(Q2)

    def step(aux, e):
        p1, p2 = aux
        if p1 < n1 and e == Q1[p1]:
            p1 += 1
        if p2 < n2 and e == Q2[p2]:
            p2 += 1
        return (p1, p2)

    return _bfs(H, S, T, (0, 0), step, lambda aux: aux == (n1, n2))


def exists_walk_containing_and_using(H, S, T, Q, x):
    Q = [tuple(e) for e in Q]
    n = len(Q)
    x = tuple(x)

    def step(aux, e):
        p, used = aux
        if p < n and e == Q[p]:
            p += 1
        return (p, used or e == x)

    return _bfs(H, S, T, (0, False), step, lambda aux: aux == (n, True))


def walk_contains(walk_edges, Q):
    p = 0
    Q = [tuple(e) for e in Q]
    for e in walk_edges:
        if p < len(Q) and tuple(e) == Q[p]:
            p += 1
    return p == len(Q)


def exists_walk_containing_avoiding(H, S, T, C, Q):
    """Is there an S->T walk that contains C as a subsequence but does NOT contain Q as a subsequence?"""
    C = [tuple(e) for e in C]
    Q = [tuple(e) for e in Q]
    nc, nq = len(C), len(Q)
    if nq == 0:
        return False

    def step(aux, e):
        pc, pq = aux
        if pc < nc and e == C[pc]:
            pc += 1
        if pq < nq and e == Q[pq]:
            pq += 1
        if pq == nq:
            return None
        return (pc, pq)

    return _bfs(H, S, T, (0, 0), step, lambda aux: aux[0] == nc)


def exists_walk_containing(H, S, T, C):
    C = [tuple(e) for e in C]
    nc = len(C)

    def step(p, e):
        return p + 1 if p < nc and e == C[p] else p

    return _bfs(H, S, T, 0, step, lambda p: p == nc)
