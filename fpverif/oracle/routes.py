"""Route validity, path/walk enumeration and multiplicity helpers (no flowpaths imports)."""
from collections import Counter

import networkx as nx


def edges_of(route):
    return list(zip(route[:-1], route[1:]))


def check_route(G, route, starts=(), ends=(), simple=False):
    """None if `route` (list of nodes) is a real admissible route of caller graph G, else (kind, detail)."""
    if not isinstance(route, list) or len(route) == 0:
        return ("empty_route", f"{route!r}")
    for x in route:
        if x not in G:
            return ("foreign_node", f"node {x!r} of route {route} is not a node of the caller's graph")
    for u, v in edges_of(route):
        if not G.has_edge(u, v):
            return ("non_edge", f"({u!r},{v!r}) in route {route} is not an edge of the caller's graph")
    if not (G.in_degree(route[0]) == 0 or route[0] in set(starts)):
        return ("bad_start", f"route {route} starts at {route[0]!r} (in-degree {G.in_degree(route[0])}, not a declared start)")
    if not (G.out_degree(route[-1]) == 0 or route[-1] in set(ends)):
        return ("bad_end", f"route {route} ends at {route[-1]!r} (out-degree {G.out_degree(route[-1])}, not a declared end)")
    if simple and len(set(route)) != len(route):
        return ("not_simple", f"DAG model returned a path with a repeated node: {route}")
    return None


def augmented(G, starts=(), ends=()):
    """Reference augmentation: SRC -> sources/starts, sinks/ends -> SNK (independent of the library)."""
    H = nx.DiGraph()
    H.add_nodes_from(G.nodes())
    H.add_edges_from(G.edges())
    S, T = ("__SRC__",), ("__SNK__",)
    H.add_node(S)
    H.add_node(T)
    for v in G.nodes():
        if G.in_degree(v) == 0 or v in set(starts):
            H.add_edge(S, v)
        if G.out_degree(v) == 0 or v in set(ends):
            H.add_edge(v, T)
    return H, S, T


def all_st_paths(G, starts=(), ends=(), limit=5000):
    """All admissible source->sink paths (lists of caller nodes) of a DAG; None if more than `limit`."""
    H, S, T = augmented(G, starts, ends)
    out = []
    stack = [(S, [])]
    while stack:
        v, path = stack.pop()
        if v == T:
            out.append(path)
            if len(out) > limit:
                return None
            continue
        for w in sorted(H.successors(v), key=repr, reverse=True):
            stack.append((w, path if w == T else path + [w]))
    return out


def walk_vectors(G, cap, starts=(), ends=(), limit=4000, max_len=40):
    """All distinct edge-multiplicity vectors (as frozenset of ((u,v),m)) of admissible source->sink walks of a
    digraph in which edge e is traversed at most cap[e] times.  Returns (list of Counter, complete?)."""
    H, S, T = augmented(G, starts, ends)
    seen = set()
    out = []
    complete = True
    # DFS over (node, used-vector)
    stack = [(S, Counter(), 0)]
    visited_states = set()
    while stack:
        v, used, ln = stack.pop()
        if v == T:
            key = frozenset(used.items())
            if key not in seen:
                seen.add(key)
                out.append(Counter(used))
                if len(out) > limit:
                    return out, False
            continue
        if ln > max_len:
            complete = False
            continue
        for w in H.successors(v):
            if v == S or w == T:
                stack.append((w, used, ln))
                continue
            e = (v, w)
            if used[e] + 1 > cap.get(e, 1):
                continue
            nu = Counter(used)
            nu[e] += 1
            st = (w, frozenset(nu.items()))
            if st in visited_states:
                continue
            visited_states.add(st)
            stack.append((w, nu, ln + 1))
    return out, complete


def mult(route):
    return Counter(edges_of(route))
