"""Brute-force minimum generating multiset and minimum-weight set cover (no flowpaths imports)."""
import itertools

from .lp import INF, LP


def partitions(total, k, minimum=0):
    """Non-decreasing k-tuples of ints >= minimum summing to total."""
    if k == 1:
        if total >= minimum:
            yield (total,)
        return
    for first in range(minimum, total // k + 1):
        for rest in partitions(total - first, k - 1, first):
            yield (first,) + rest


def generable(g, number, mult):
    """Is `number` = sum x_i*g_i with integers 0 <= x_i <= mult ?  (ints)"""
    reach = {0}
    for gi in g:
        if gi == 0:
            continue
        new = set()
        for r in reach:
            for x in range(mult + 1):
                v = r + x * gi
                if v <= number:
                    new.add(v)
        reach = new
    return number in reach


def _partition_ok(g, constraint):
    """Can the elements of g be split into len(constraint) groups with the given sums (zeros anywhere)?"""
    g = [x for x in g if x != 0]
    t = len(constraint)

    def rec(i, sums):
        if i == len(g):
            return all(s == c for s, c in zip(sums, constraint))
        for j in range(t):
            if sums[j] + g[i] <= constraint[j]:
                sums[j] += g[i]
                if rec(i + 1, sums):
                    sums[j] -= g[i]
                    return True
                sums[j] -= g[i]
        return False

    return rec(0, [0] * t)


def valid_genset_int(g, numbers, total, mult, partition_constraints=None):
    if any(x < 0 for x in g) or sum(g) != total:
        return False
    if not all(generable(g, n, mult) for n in numbers):
        return False
    for c in partition_constraints or []:
        if not _partition_ok(g, c):
            return False
    return True


def min_genset_int(numbers, total, mult, partition_constraints=None, kmax=5):
    """(k*, witness) smallest k (1..kmax) for which a generating multiset of k non-negative ints exists; (None, None) if none."""
    for k in range(1, kmax + 1):
        for g in partitions(total, k):
            if valid_genset_int(g, numbers, total, mult, partition_constraints):
                return k, list(g)
    return None, None


def exists_genset_float(numbers, total, mult, k, budget=4000):
    """Real-valued generating multiset of size k?  Enumerates coefficient matrices, LP feasibility for each.
    Returns True/False, or None when the enumeration would exceed the budget."""
    n = len(numbers)
    if (mult + 1) ** (k * n) > budget:
        return None
    for X in itertools.product(range(mult + 1), repeat=k * n):
        lp = LP()
        g = [lp.var(0, INF) for _ in range(k)]
        lp.row(total, total, {gi: 1 for gi in g})
        ok = True
        for j in range(n):
            terms = {g[i]: X[i * n + j] for i in range(k) if X[i * n + j]}
            if not terms:
                if abs(numbers[j]) > 1e-12:
                    ok = False
                    break
                continue
            lp.row(numbers[j], numbers[j], terms)
        if not ok:
            continue
        st, _o, _v = lp.solve()
        if st == "optimal":
            return True
    return False


def min_set_cover(universe, subsets, weights):
    """(min weight, indices) by exhaustive search; (None, None) if no cover exists."""
    U = set(universe)
    best, arg = None, None
    n = len(subsets)
    for mask in range(1 << n):
        idx = [i for i in range(n) if mask >> i & 1]
        cov = set()
        for i in idx:
            cov |= set(subsets[i])
        if U <= cov:
            w = sum(weights[i] for i in idx)
            if best is None or w < best - 1e-12:
                best, arg = w, idx
    return best, arg
