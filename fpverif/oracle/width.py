"""Minimum number of source->sink paths/walks covering a set of required edges, via Dilworth's theorem
with a brute-force maximum antichain (no flowpaths imports; networkx only for SCCs and reachability)."""
import itertools

import networkx as nx

from .routes import augmented


def dilworth(G, required, starts=(), ends=(), max_items=16):
    """min #admissible routes covering every edge in `required` (edges of G).

    Items of the poset: one per required edge joining two different SCCs, one per SCC that contains a
    required edge (a walk inside an SCC can take all its edges).  a < b iff a route can traverse a and
    later b.  Chains = sets coverable by one route (every item lies on a source->sink route, by the
    property's domain), so min cover = max antichain.  Returns None when there are too many items.
    """
    required = [tuple(e) for e in required]
    if not required:
        return 0
    H, S, T = augmented(G, starts, ends)
    scc_of = {}
    for i, comp in enumerate(nx.strongly_connected_components(H)):
        for v in comp:
            scc_of[v] = i
    items = []  # (entry_node, exit_node): enter item at entry, leave at exit
    seen_scc = set()
    for (u, v) in required:
        if scc_of[u] == scc_of[v]:
            if scc_of[u] not in seen_scc:
                seen_scc.add(scc_of[u])
                items.append((u, u))  # any node of the SCC works for reachability
        else:
            items.append((u, v))
    items = list(dict.fromkeys(items))
    if len(items) > max_items:
        return None
    desc = {v: nx.descendants(H, v) | {v} for v in {x for it in items for x in it}}
    n = len(items)
    comparable = [[False] * n for _ in range(n)]
    for i, (a_in, a_out) in enumerate(items):
        for j, (b_in, b_out) in enumerate(items):
            if i != j and b_in in desc[a_out]:
                comparable[i][j] = True
    best = 0
    # largest antichain by decreasing size
    for size in range(n, 0, -1):
        for sub in itertools.combinations(range(n), size):
            if all(not comparable[i][j] and not comparable[j][i] for i, j in itertools.combinations(sub, 2)):
                return size
    return best


def min_cover_bruteforce(routes_edge_sets, required, kmax):
    """Exhaustive: smallest number of given routes (sets of edges) covering `required`; None if > kmax."""
    required = set(required)
    if not required:
        return 0
    for k in range(1, kmax + 1):
        for sub in itertools.combinations(routes_edge_sets, k):
            if required <= set().union(*sub):
                return k
    return None
