"""Tiny LP/MILP front end that hands fixed-route sub-problems straight to highspy (no flowpaths code)."""
import highspy
import numpy as np

INF = highspy.kHighsInf


class LP:
    def __init__(self):
        h = highspy.Highs()
        h.setOptionValue("output_flag", False)
        h.setOptionValue("threads", 1)
        for o in ("mip_rel_gap", "mip_abs_gap"):
            h.setOptionValue(o, 0.0)
        h.setOptionValue("mip_feasibility_tolerance", 1e-9)
        h.setOptionValue("primal_feasibility_tolerance", 1e-9)
        h.setOptionValue("time_limit", 30.0)
        self.h = h
        self.n = 0
        self.int_cols = []

    def var(self, lb=0.0, ub=INF, cost=0.0, integer=False):
        self.h.addVar(lb, ub)
        i = self.n
        self.n += 1
        if cost:
            self.h.changeColCost(i, float(cost))
        if integer:
            self.h.changeColIntegrality(i, highspy.HighsVarType.kInteger)
        return i

    def row(self, lo, hi, terms):
        """lo <= sum coef*var <= hi ; terms = {var: coef}"""
        idx = [i for i, c in terms.items() if c != 0]
        val = [float(terms[i]) for i in idx]
        self.h.addRow(float(lo), float(hi), len(idx), np.array(idx, dtype=np.int32), np.array(val, dtype=np.float64))

    def solve(self):
        """('optimal', obj, values) | ('infeasible', None, None) | ('other:<status>', None, None)"""
        self.h.run()
        st = self.h.getModelStatus()
        if st == highspy.HighsModelStatus.kOptimal:
            return "optimal", self.h.getInfo().objective_function_value, list(self.h.getSolution().col_value)
        if st == highspy.HighsModelStatus.kInfeasible:
            return "infeasible", None, None
        return f"other:{st.name}", None, None
