"""Slow, obviously-correct reference optimisation: exhaustive search over sets of <= k routes, with an
LP/MILP over weights/slacks/errors only for each fixed route set (given straight to highspy)."""
import itertools
from collections import Counter
from fractions import Fraction

from .lp import INF, LP


def fixed_routes(kind, mults, f, scale=None, weight_type="float", factors=None, want_solution=False):
    """Optimal weights for FIXED routes.

    kind: 'fd'  -> feasibility of sum_i w_i*m_i(e) == f(e) for every e in f          (objective 0)
          'lae' -> min sum_e scale_e*|f(e) - sum_i w_i*m_i(e)|
          'mpe' -> min sum_i s_i  s.t. scale_e*|f(e) - sum_i w_i*m_i(e)| <= sum_i factors_i*s_i*m_i(e)
    mults: list of Counter(edge -> multiplicity); f: {edge: value} over the NON-ignored edges only.
    Returns (status, objective, solution|None) with status in {'optimal','infeasible','other:..'}.
    """
    scale = scale or {}
    integer = weight_type == "int"
    lp = LP()
    k = len(mults)
    w = [lp.var(0, INF, 0.0, integer) for _ in range(k)]
    if kind == "fd":
        for e, fe in f.items():
            terms = {w[i]: mults[i].get(e, 0) for i in range(k) if mults[i].get(e, 0)}
            if not terms:
                if abs(fe) > 1e-12:
                    return "infeasible", None, None
                continue
            lp.row(fe, fe, terms)
    elif kind == "lae":
        for e, fe in f.items():
            sc = scale.get(e, 1)
            err = lp.var(0, INF, sc, integer)
            terms = {w[i]: mults[i].get(e, 0) for i in range(k) if mults[i].get(e, 0)}
            t1 = dict(terms)
            t1[err] = 1  # sum + err >= f
            lp.row(fe, INF, t1)
            t2 = dict(terms)
            t2[err] = -1  # sum - err <= f
            lp.row(-INF, fe, t2)
    elif kind == "mpe":
        s = [lp.var(0, INF, 1.0, integer) for _ in range(k)]
        fac = factors or [1.0] * k
        for e, fe in f.items():
            sc = scale.get(e, 1)
            # sc*(f - sum w m) <= sum fac s m   <=>  sc*sum w m + sum fac s m >= sc*f
            t1 = {}
            t2 = {}
            for i in range(k):
                m = mults[i].get(e, 0)
                if m:
                    t1[w[i]] = sc * m
                    t1[s[i]] = fac[i] * m
                    t2[w[i]] = sc * m
                    t2[s[i]] = -fac[i] * m
            if not t1:
                if sc * fe > 1e-12:
                    return "infeasible", None, None
                continue
            lp.row(sc * fe, INF, t1)
            lp.row(-INF, sc * fe, t2)
    else:
        raise ValueError(kind)
    st, obj, vals = lp.solve()
    if st != "optimal":
        return st, None, None
    sol = None
    if want_solution:
        sol = {"weights": [vals[i] for i in w]}
        if kind == "mpe":
            sol["slacks"] = [vals[i] for i in s]
    return st, obj, sol


def best_over_route_sets(kind, route_mults, k, f, scale=None, weight_type="float", predicate=None, factors_of=None, stop_below=None, max_sets=20000):
    """min over all sets of <= k distinct routes (padding with zero-weight duplicates is free) of the fixed-route
    optimum.  predicate(tuple_of_indices) filters admissible route sets (constraints).  Returns
    (best_obj|None if infeasible everywhere, best_set, n_sets_tried, complete)."""
    n = len(route_mults)
    best, best_set, tried = None, None, 0
    for size in range(1, min(k, n) + 1):
        for sub in itertools.combinations(range(n), size):
            if predicate is not None and not predicate(sub):
                continue
            tried += 1
            if tried > max_sets:
                return best, best_set, tried, False
            mults = [route_mults[i] for i in sub]
            factors = [factors_of(i) for i in sub] if factors_of else None
            st, obj, _ = fixed_routes(kind, mults, f, scale, weight_type, factors)
            if st == "optimal" and (best is None or obj < best - 1e-12):
                best, best_set = obj, sub
                if stop_below is not None and best < stop_below:
                    return best, best_set, tried, True
                if kind == "fd":
                    return best, best_set, tried, True
    return best, best_set, tried, True


# ------------------------------------------------------------------------------------------ exact rational FD
def _solve_unique(A_cols, b):
    """Solve sum_j x_j*A_cols[j] = b over Q; returns list of Fractions if the solution exists and is unique,
    'dependent' if the columns are linearly dependent, None if inconsistent."""
    m = len(b)
    n = len(A_cols)
    M = [[Fraction(A_cols[j][i]) for j in range(n)] + [Fraction(b[i])] for i in range(m)]
    piv_cols = []
    r = 0
    for c in range(n):
        p = None
        for i in range(r, m):
            if M[i][c] != 0:
                p = i
                break
        if p is None:
            return "dependent"
        M[r], M[p] = M[p], M[r]
        pv = M[r][c]
        M[r] = [x / pv for x in M[r]]
        for i in range(m):
            if i != r and M[i][c] != 0:
                fct = M[i][c]
                M[i] = [a - fct * bb for a, bb in zip(M[i], M[r])]
        piv_cols.append(c)
        r += 1
    for i in range(r, m):
        if M[i][n] != 0:
            return None
    return [M[i][n] for i in range(n)]


def exists_fd_with_at_most(route_mults, kmax, f, weight_type="float", predicate=None):
    """Exact: is there a decomposition of f (non-ignored edges) into <= kmax of the given routes with weights
    >= 0 of the requested type?  Real weights: a basic feasible solution uses linearly independent routes, so it is
    enough to look at independent subsets and solve exactly over Q.  Int weights: independent subsets are solved
    exactly; dependent subsets fall back to a MILP over the weights.  Returns (bool, witness)."""
    edges = sorted(f.keys(), key=repr)
    b = [Fraction(f[e]).limit_denominator(10**6) for e in edges]
    n = len(route_mults)
    for size in range(0, min(kmax, n) + 1):
        for sub in itertools.combinations(range(n), size):
            if predicate is not None and not predicate(sub):
                continue
            cols = [[route_mults[i].get(e, 0) for e in edges] for i in sub]
            if size == 0:
                if all(x == 0 for x in b):
                    return True, ((), [])
                continue
            sol = _solve_unique(cols, b)
            if sol is None:
                continue
            if sol == "dependent":
                if weight_type == "int" or predicate is not None:
                    st, _, s = fixed_routes("fd", [route_mults[i] for i in sub], f, None, weight_type, want_solution=True)
                    if st == "optimal":
                        return True, (sub, s["weights"])
                continue
            if all(x >= 0 for x in sol) and (weight_type != "int" or all(x.denominator == 1 for x in sol)):
                return True, (sub, [float(x) for x in sol])
    return False, None
