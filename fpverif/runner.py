"""Runs one check: replay tier, sharded generation tier, aggregation, shrinking, evidence, exit code."""
import glob
import importlib
import json
import os
import shutil
import subprocess
import sys
import tempfile
import time

from . import known
from .common import VERIF_ROOT, case_hash, dumps

NPROC = int(os.environ.get("FPVERIF_NPROC", "16"))


def _mod(prop):
    return importlib.import_module(f"fpverif.props.{prop.lower()}")


def _print(*a):
    print(*a, flush=True)


# --------------------------------------------------------------------------------------------- shrinking
def _shrink_candidates(obj, path=()):
    """Generic structural candidates over a JSON case: drop list elements, lower numbers."""
    if isinstance(obj, list):
        for i in range(len(obj)):
            yield path, ("del", i)
        for i, x in enumerate(obj):
            yield from _shrink_candidates(x, path + (i,))
    elif isinstance(obj, dict):
        for k in sorted(obj):
            if k in ("cls",):
                continue
            yield from _shrink_candidates(obj[k], path + (k,))
    elif isinstance(obj, bool):
        if obj:
            yield path, ("set", False)
    elif isinstance(obj, int):
        if obj > 1:
            yield path, ("set", 1)
            yield path, ("set", obj - 1)
    elif isinstance(obj, float):
        if obj != 1.0 and obj > 0:
            yield path, ("set", 1.0)


def _apply(obj, path, op):
    obj = json.loads(json.dumps(obj))
    if op[0] == "del":
        cur = obj
        for p in path:
            cur = cur[p]
        del cur[op[1]]
        return obj
    if not path:
        return op[1]
    cur = obj
    for p in path[:-1]:
        cur = cur[p]
    cur[path[-1]] = op[1]
    return obj


def minimize(mod, case, bucket_of, want_bucket, tier, budget_s):
    """Greedy structural delta debugging, bounded by wall clock; the result still fails in `want_bucket`."""
    t0 = time.time()
    best = case
    improved = True
    while improved and time.time() - t0 < budget_s:
        improved = False
        for path, op in list(_shrink_candidates(best)):
            if time.time() - t0 > budget_s:
                break
            try:
                cand = _apply(best, path, op)
            except Exception:
                continue
            try:
                out = mod.run_case(cand, tier)
            except Exception:
                continue
            if out.get("status") == "violation" and bucket_of(cand, out) == want_bucket:
                if len(dumps(cand)) < len(dumps(best)):
                    best = cand
                    improved = True
                    break
    return best


# --------------------------------------------------------------------------------------------- replay
def replay_file(prop, path, tier="quick", quiet=False):
    mod = _mod(prop)
    with open(path) as f:
        doc = json.load(f)
    if "sequence" in doc:
        # a history of cases executed in ONE process: the verdict is that of the last case (state leaking between calls)
        out = None
        for case in doc["sequence"]:
            out = mod.run_case(case, tier)
        if out.get("status") == "violation":
            out = dict(out, kind=str(out.get("kind")) + "[history-dependent]")
        if not quiet:
            _print(f"replay {path} (sequence of {len(doc['sequence'])} cases): {out['status']}" + (f" kind={out.get('kind')} detail={out.get('detail')}" if out["status"] == "violation" else ""))
        return case, out
    case = doc["case"] if "case" in doc else doc
    out = mod.run_case(case, tier)
    if not quiet:
        _print(f"replay {path}: {out['status']}" + (f" kind={out.get('kind')} detail={out.get('detail')}" if out["status"] == "violation" else ""))
    return case, out


def _write_replay(prop, case, out, note=""):
    d = os.path.join(VERIF_ROOT, "replays")
    os.makedirs(d, exist_ok=True)
    p = os.path.join(d, f"{prop}-{case_hash(case)}.json")
    with open(p, "w") as f:
        f.write(dumps({"property": prop, "case": case, "observed": {k: out.get(k) for k in ("kind", "detail", "site", "facts")}, "note": note}, indent=1))
    return p


# --------------------------------------------------------------------------------------------- main entry
def run_check(prop, tier, seed):
    t0 = time.time()
    mod = _mod(prop)
    entries = known.load()
    budget = mod.BUDGET[tier]
    violations = []  # (case, out, origin)
    known_hits = {}
    from .worker import Recorder

    # ---- 1. replay tier -------------------------------------------------------------------
    reg_dir = os.path.join(VERIF_ROOT, "regressions", prop)
    n_replayed = 0
    for p in sorted(glob.glob(os.path.join(reg_dir, "*.json"))):
        try:
            case, out = replay_file(prop, p, tier, quiet=True)
        except Exception as e:  # harness problem
            _print(f"HARNESS-ERROR: replay of {p} failed: {type(e).__name__}: {e}")
            return 2
        n_replayed += 1
        if out["status"] == "violation":
            kid = known.match(prop, case, out, entries)
            if kid:
                known_hits.setdefault(kid, 0)
                known_hits[kid] += 1
            else:
                violations.append((case, out, f"regression:{os.path.basename(p)}"))

    # ---- 2. generation tier ---------------------------------------------------------------
    work = tempfile.mkdtemp(prefix=f"fpverif-{prop}-")
    procs = []
    nshards = min(NPROC, budget.get("shards", NPROC))
    per = max(1, budget["examples"] // nshards)
    env = dict(os.environ)
    for i in range(nshards):
        outp = os.path.join(work, f"shard{i}.jsonl")
        cmd = [sys.executable, "-m", "fpverif.worker", prop, tier, str(i), str(nshards), str(seed), outp, str(per), str(budget["deadline_s"])]
        procs.append((i, outp, subprocess.Popen(cmd, env=env, stdout=subprocess.PIPE, stderr=subprocess.STDOUT)))
    harness_errors = []
    hard_cap = budget["deadline_s"] * 2 + 120
    for i, outp, pr in procs:
        try:
            so, _ = pr.communicate(timeout=max(10, hard_cap - (time.time() - t0)))
        except subprocess.TimeoutExpired:
            pr.kill()
            so, _ = pr.communicate()
            harness_errors.append(f"shard {i}: killed after hard cap")
            continue
        if pr.returncode != 0:
            harness_errors.append(f"shard {i}: exit {pr.returncode}: {so.decode(errors='replace')[-1500:]}")

    # ---- 3. aggregate ---------------------------------------------------------------------
    evaluations = 0
    status_counts = {}
    label_counts = {}
    nontrivial = set()
    samples = []
    buckets = {}
    excluded_known = {}
    notes = []
    reasons = {}
    inc_samples = {}
    bucket_counts = {}
    shard_cases = {}
    for i, outp, _ in procs:
        if not os.path.exists(outp):
            continue
        shard_cases[i] = []
        with open(outp) as f:
            for line in f:
                try:
                    r = json.loads(line)
                except Exception:
                    continue
                if "note" in r:
                    notes.append(r["note"])
                    continue
                r["_shard"], r["_pos"] = i, len(shard_cases[i])
                shard_cases[i].append(r.get("case", r.get("c")))
                r.pop("c", None)
                evaluations += 1
                status_counts[r["st"]] = status_counts.get(r["st"], 0) + 1
                for lb in r.get("labels", []):
                    label_counts[lb] = label_counts.get(lb, 0) + 1
                if r.get("nt") and r["st"] in ("ok", "violation"):
                    nontrivial.add(r["h"])
                if r["st"] == "ok" and "case" in r and len(samples) < 8:
                    samples.append({"case": r["case"], "labels": r.get("labels", [])})
                if r["st"] in ("inconclusive", "invalid_config"):
                    key = f"{r['st']}:{str(r.get('reason'))[:80]}"
                    reasons[key] = reasons.get(key, 0) + 1
                    if "case" in r and key not in inc_samples and len(inc_samples) < 12:
                        inc_samples[key] = r["case"]
                if r["st"] == "violation":
                    if r.get("known"):
                        excluded_known[r["known"]] = excluded_known.get(r["known"], 0) + 1
                    else:
                        b = r["bucket"]
                        bucket_counts[b] = bucket_counts.get(b, 0) + 1
                        cur = buckets.get(b)
                        if cur is None or len(dumps(r["case"])) < len(dumps(cur["case"])):
                            buckets[b] = r
    seq_violations = 0

    # ---- 4. shrink new buckets, write replay files -------------------------------------------
    shrink_budget = 20 if tier == "quick" else 120
    for b, r in sorted(buckets.items())[:8]:
        case = r["case"]
        try:
            small = minimize(mod, case, Recorder.bucket, b, tier, shrink_budget)
            out = mod.run_case(small, tier)
            if out.get("status") != "violation":
                small, out = case, mod.run_case(case, tier)
        except Exception:
            small, out = case, {"status": "violation", "kind": r.get("kind"), "detail": r.get("detail"), "site": r.get("site"), "facts": r.get("facts")}
        if out.get("status") != "violation":
            # Not reproducible from a clean state.  If the shard's HISTORY (the cases executed before it in the same process)
            # reproduces it deterministically in a fresh process, the library leaks state between calls: that is a violation
            # (the result for this input is wrong in that history).  Otherwise it is a harness problem, not a verdict.
            seq = _history_repro(prop, shard_cases.get(r["_shard"], [])[: r["_pos"]] + [case], tier, work)
            if seq is not None:
                p_ = _write_seq_replay(prop, seq, r)
                _print(f"  generated:{b}: kind={r.get('kind')}[history-dependent] (reproduces only after {len(seq) - 1} earlier call(s) in the same process) detail={str(r.get('detail'))[:240]}")
                _print(f"VIOLATION property={prop} replay={p_}")
                seq_violations += 1
                continue
            harness_errors.append(f"bucket {b}: violation seen in a shard did not reproduce on replay; case={dumps(case)[:400]}")
            continue
        violations.append((small, out, f"generated:{b}"))

    shutil.rmtree(work, ignore_errors=True)
    # ---- 5. evidence ------------------------------------------------------------------------
    wall = time.time() - t0
    if not samples:
        samples = [{"note": "no non-trivial sample recorded"}]
    cov = {
        "evaluations": evaluations + n_replayed,
        "distinct_nontrivial": len(nontrivial),
        "rule": mod.RULE,
        "samples": samples,
        "status_counts": status_counts,
        "label_histogram": dict(sorted(label_counts.items())),
        "reasons": dict(sorted(reasons.items(), key=lambda kv: -kv[1])[:12]),
        "inconclusive_samples": inc_samples,
        "replayed_regressions": n_replayed,
        "excluded_known": excluded_known,
        "new_violation_buckets": bucket_counts,
        "shards": nshards,
        "notes": _merge_notes(notes),
        "harness_warnings": harness_errors[:5],
    }
    if hasattr(mod, "extra_coverage"):
        try:
            cov.update(mod.extra_coverage(tier, cov))
        except Exception as e:
            cov["extra_coverage_error"] = repr(e)
    ev = {
        "property_id": prop,
        "tier": tier,
        "seed": int(seed),
        "level": mod.LEVEL,
        "coverage": cov,
        "assumptions": list(getattr(mod, "ASSUMPTIONS", [])),
        "wall_s": round(wall, 2),
        "violations": len(violations) + seq_violations,
    }
    _write_evidence(prop, ev)

    # ---- 6. verdict -------------------------------------------------------------------------
    for e in entries:
        if e.get("status") == "known" and e.get("property") == prop:
            n = known_hits.get(e["id"], 0) + excluded_known.get(e["id"], 0)
            _print(f"KNOWN-FINDING: property={prop} {e['id']}: {e.get('what', '')} (reproduced {n}x in this run)")
    _print(
        f"[{prop}/{tier}] seed={seed} evaluations={cov['evaluations']} distinct_nontrivial={cov['distinct_nontrivial']} "
        f"status={status_counts} excluded_known={excluded_known} wall={wall:.1f}s"
    )
    if violations or seq_violations:
        for case, out, origin in violations:
            p = _write_replay(prop, case, out, note=origin)
            _print(f"  {origin}: kind={out.get('kind')} detail={str(out.get('detail'))[:300]}")
            _print(f"VIOLATION property={prop} replay={p}")
        return 1
    if harness_errors and evaluations == 0:
        for h in harness_errors:
            _print("HARNESS-ERROR:", h)
        return 2
    for h in harness_errors:
        _print("HARNESS-WARNING:", h)
    if any("did not reproduce" in h or "exit" in h for h in harness_errors):
        return 2
    return 0


def _seq_fails(prop, seq, tier, work):
    """Run the sequence in a fresh interpreter; True iff its last case violates."""
    fn = os.path.join(work, "seq.json")
    with open(fn, "w") as f:
        f.write(dumps({"property": prop, "sequence": seq}))
    pr = subprocess.run([sys.executable, "-m", "fpverif.cli", prop, "--tier", tier, "--replay", fn], capture_output=True, text=True, timeout=900)
    return pr.returncode == 1 and "VIOLATION" in pr.stdout


def _history_repro(prop, seq, tier, work, budget_s=240):
    """Shortest-suffix search + one-by-one removal; returns a (reduced) sequence that reproduces in a fresh process, or None."""
    t0 = time.time()
    seq = [c for c in seq if c is not None]
    if len(seq) < 2:
        return None
    try:
        n = 2
        found = None
        while True:
            suf = seq[-n:]
            if _seq_fails(prop, suf, tier, work):
                found = suf
                break
            if n >= len(seq) or time.time() - t0 > budget_s:
                break
            n = min(len(seq), n * 2)
        if found is None:
            return None
        i = 0
        while i < len(found) - 1 and time.time() - t0 < budget_s:
            cand = found[:i] + found[i + 1 :]
            if len(cand) >= 2 and _seq_fails(prop, cand, tier, work):
                found = cand
            else:
                i += 1
        return found
    except Exception:
        return None


def _write_seq_replay(prop, seq, r):
    d = os.path.join(VERIF_ROOT, "replays")
    os.makedirs(d, exist_ok=True)
    p = os.path.join(d, f"{prop}-seq-{case_hash(seq)}.json")
    with open(p, "w") as f:
        f.write(dumps({"property": prop, "sequence": seq, "observed": {k: r.get(k) for k in ("kind", "detail", "site")},
                       "note": "history-dependent violation: the last case fails only after the earlier ones were executed in the same process"}, indent=1))
    return p


def _merge_notes(notes):
    out = {}
    for n in notes:
        if not isinstance(n, dict):
            continue
        for k, v in n.items():
            if isinstance(v, bool):
                out[k] = out.get(k, True) and v
            elif isinstance(v, (int, float)):
                out[k] = out.get(k, 0) + v
            else:
                out.setdefault(k, [])
                if v not in out[k] and len(out[k]) < 10:
                    out[k].append(v)
    return out


def _write_evidence(prop, ev):
    d = os.path.join(VERIF_ROOT, "evidence")
    os.makedirs(d, exist_ok=True)
    schema_p = os.path.join(VERIF_ROOT, "schemas", "EVIDENCE.schema.json")
    try:
        import jsonschema

        with open(schema_p) as f:
            jsonschema.validate(json.loads(dumps(ev)), json.load(f))
    except ImportError:
        pass
    except Exception as e:
        _print(f"HARNESS-WARNING: evidence does not validate: {str(e)[:300]}")
    with open(os.path.join(d, f"{prop}.json"), "w") as f:
        f.write(dumps(ev, indent=1))
