"""C06 - safe paths/sequences are truly safe, mutually incompatible, and prune soundly (solver-free)."""
import itertools
from collections import Counter

import networkx as nx
from hypothesis import strategies as st

from .. import gen
from ..common import Crash, graph_from_json, guarded, inconclusive, invalid_config, ok, violation
from ..oracle import bf, walkauto as wa
from ..oracle.routes import all_st_paths, augmented

ID = "C06"
LEVEL = "exploration"
TECHNIQUE = "property-based testing (Hypothesis): generated DAGs/cyclic digraphs and trusted sets; product-automaton decision procedure for 'every route through x contains S' as exact per-instance oracle"
LEVEL_TEXT = (
    "Solver-free generated-input exploration.  For every sequence returned by safe_paths, safe_sequences (edges and subpath "
    "constraints), maximal_safe_sequences_via_dominators and compute_flow_decomp_safe_paths an exact per-instance oracle decides "
    "safety (finite product automaton node x greedy-subsequence pointer; for flow-safe paths the excess-flow criterion cross-checked "
    "by an LP over all avoiding paths).  For constructed walk models (kPathCoverCycles, kFlowDecompCycles, kMinPathErrorCycles, "
    "kLeastAbsErrorsCycles) every pair of walks_to_fix must admit no common source-sink walk, every zero-fixed (u,v,i) must lie on no "
    "walk containing slot i's sequence, every one-fixed entry must belong to slot i's sequence; the dormant DAG slot assignment "
    "(_get_paths_to_fix_from_safe_lists) is exercised directly."
)
LEVEL_NOTE = "Trusted: networkx containers, CPython, Hypothesis; HiGHS only for the flow-safe LP cross-check. Graphs <= 6/8 nodes."
RULE = (
    "case = (target, graph, trusted set X / constraints / flow / model class and k). targets: safe_paths, safe_sequences, dominators, "
    "flow_safe, slots_cyc, slots_dag.  non-trivial = some returned sequence has length >= 3 or a gap, or >= 2 slots were assigned, or "
    ">= 1 variable was zero-fixed; distinct = case hash."
)
ASSUMPTIONS = ["every edge lies on a source-sink route (generator restricts to the s-t core; the other class is F18, owned by C19)"]
BUDGET = {"quick": {"examples": 6000, "deadline_s": 90}, "thorough": {"examples": 120000, "deadline_s": 900}}

SLOT_CLASSES = ["kPathCoverCycles", "kFlowDecompCycles", "kMinPathErrorCycles", "kLeastAbsErrorsCycles"]


@st.composite
def strategy_(draw, tier):
    big = tier == "thorough"
    target = draw(st.sampled_from(["dominators", "dominators", "safe_sequences", "safe_paths", "flow_safe", "slots_cyc", "slots_cyc", "slots_dag"]))
    ch = draw(gen.choosers(48))
    if target in ("dominators", "slots_cyc"):
        if target == "slots_cyc" or ch.coin(3, 4):
            inst = draw(gen.planted_walk_flows(max_nodes=8 if big else 6, max_walks=3))
            nodes, edges, flow = inst["nodes"], inst["edges"], inst["flow"]
        else:
            nodes, edges = draw(gen.dags(2, 6, True))
            flow = {e: 1 + ch.below(4) for e in edges}
    else:
        inst = draw(gen.planted_dag_flows(max_nodes=7 if big else 6, max_paths=4, float_weights=False))
        nodes, edges, flow = inst["nodes"], inst["edges"], inst["flow"]
    g = {"nodes": [[v, {}] for v in nodes], "edges": [[u, v, {"flow": flow[(u, v)]}] for (u, v) in edges]}
    case = {"target": target, "graph": g}
    xmode = ch.pick(["all", "all", "subset", "single"])
    if xmode == "all":
        X = list(edges)
    elif xmode == "single":
        X = [ch.pick(edges)]
    else:
        X = ch.subset(edges, 1, 2) or [ch.pick(edges)]
    case["X"] = [list(e) for e in X]
    if target == "safe_sequences" and ch.coin():
        # subpath constraints as trusted elements: consecutive edges along a path, possibly gapped
        G = nx.DiGraph()
        G.add_edges_from(edges)
        cons = []
        for _ in range(1 + ch.below(2)):
            e = ch.pick(edges)
            seq = [e]
            while G.out_degree(seq[-1][1]) > 0 and len(seq) < 4 and ch.coin(2, 3):
                nxt = ch.pick(sorted(G.successors(seq[-1][1])))
                seq.append((seq[-1][1], nxt))
            if len(seq) >= 3 and ch.coin():
                del seq[1]  # gap
            cons.append([list(x) for x in seq])
        case["constraints"] = cons
    if target == "slots_cyc":
        case["cls"] = draw(st.sampled_from(SLOT_CLASSES))
        case["k"] = draw(st.integers(1, 4))
        case["opts"] = draw(st.sampled_from([{}, {}, {"optimize_with_safe_sequences_fix_zero_edges": True}, {"optimize_with_max_safe_antichain_as_subset_constraints": True}]))
    if target == "slots_dag":
        case["k"] = draw(st.integers(1, 4))
        case["opts"] = draw(st.sampled_from([{"optimize_with_safe_paths": True}, {"optimize_with_safe_paths": False, "optimize_with_safe_sequences": True},
                                             {"optimize_with_safe_paths": True, "optimize_with_safety_from_largest_antichain": True}]))
    return case


def strategy(tier):
    return strategy_(tier)


class Ctx:
    def __init__(self, G, stg):
        self.G = G
        self.stg = stg
        self.H, self.S, self.T = augmented(G)
        self.ren = {stg.source: self.S, stg.sink: self.T}

    def tr(self, seq):
        return [(self.ren.get(u, u), self.ren.get(v, v)) for (u, v) in seq]

    def is_route_edges(self, seq):
        return all(self.H.has_edge(u, v) for (u, v) in seq)


def _gap(seq):
    return any(a[1] != b[0] for a, b in zip(seq[:-1], seq[1:]))


def _safe(ctx, seq, elems):
    """elems: list of trusted elements, each an edge (tuple) or a constraint (list of edges); all in oracle names."""
    for x in elems:
        if isinstance(x, tuple):
            if wa.exists_walk_using(ctx.H, ctx.S, ctx.T, x) and not wa.exists_walk_through_avoiding(ctx.H, ctx.S, ctx.T, x, seq):
                return True
        else:
            if wa.exists_walk_containing(ctx.H, ctx.S, ctx.T, x) and not wa.exists_walk_containing_avoiding(ctx.H, ctx.S, ctx.T, x, seq):
                return True
    return False


def run_case(case, tier="quick"):
    import flowpaths as fp
    from flowpaths.utils import safetyflowdecomp, safetypathcovers, safetypathcoverscycles

    try:
        target = case["target"]
        G = graph_from_json(case["graph"])
        if G.number_of_edges() == 0 or any(G.degree(v) == 0 for v in G):
            return invalid_config("empty / isolated")
        X = [tuple(e) for e in case.get("X", [])]
        if not X or any(not G.has_edge(*e) for e in X):
            return invalid_config("X")
        dag = nx.is_directed_acyclic_graph(G)
        if target in ("safe_paths", "safe_sequences", "flow_safe", "slots_dag") and not dag:
            return invalid_config("DAG target on cyclic graph")
        Hh, Ss, Tt = augmented(G)
        for e in G.edges():
            if not wa.exists_walk_using(Hh, Ss, Tt, e):
                return invalid_config("edge on no source-sink walk (F18 class)")
    except Exception as e:
        return invalid_config(f"malformed case {e!r}")
    labels = {f"target:{target}", "cyclic" if not dag else "dag"}
    nontrivial = False
    try:
        if target in ("safe_paths", "safe_sequences", "slots_dag"):
            stg = guarded(fp.stDAG, G)
        else:
            stg = guarded(fp.stDiGraph, G)
    except Crash as c:
        return invalid_config(f"graph rejected {c}")
    ctx = Ctx(G, stg)
    try:
        # ------------------------------------------------------------------ safe paths / sequences on DAGs
        if target == "safe_paths":
            res = guarded(safetypathcovers.safe_paths, stg, list(X), False, 1)
            if len(res) != len(X):
                return violation("shape", f"{len(res)} paths for {len(X)} edges", labels)
            for x, p in zip(X, res):
                seq = ctx.tr(p)
                if not ctx.is_route_edges(seq) or _gap(seq):
                    return violation("not_a_path", f"safe path {p} for {x} is not a contiguous path of the graph", labels)
                if tuple(x) not in seq:
                    return violation("misses_own_edge", f"safe path {p} does not contain its edge {x}", labels)
                if not _safe(ctx, seq, [tuple(x)]) and not _safe(ctx, seq, X):
                    return violation("unsafe_path", f"safe_paths returned {p} for edge {x}, X={X}: a cover of X avoiding it exists", labels)
                nontrivial |= len(seq) >= 3
        elif target == "safe_sequences":
            cons = [[tuple(e) for e in c] for c in case.get("constraints", [])]
            for c in cons:
                if any(not G.has_edge(*e) for e in c) or not wa.exists_walk_containing(ctx.H, ctx.S, ctx.T, c):
                    return invalid_config("constraint not coverable")
            elems = list(X) + cons
            res = guarded(safetypathcovers.safe_sequences, stg, list(elems), False, 1)
            if len(res) != len(elems):
                return violation("shape", f"{len(res)} sequences for {len(elems)} elements", labels)
            if cons:
                labels.add("with_constraints")
            for x, s in zip(elems, res):
                seq = ctx.tr(s)
                if not ctx.is_route_edges(seq):
                    return violation("foreign_edge", f"sequence {s} has a non-edge", labels)
                if not _safe(ctx, seq, [x]) and not _safe(ctx, seq, elems):
                    return violation("unsafe_sequence", f"safe_sequences returned {s} for element {x}; elements={elems}: a cover avoiding it exists", labels)
                nontrivial |= len(seq) >= 3 or _gap(seq)
        # ------------------------------------------------------------------ dominator-based maximal safe sequences
        elif target == "dominators":
            res = guarded(safetypathcoverscycles.maximal_safe_sequences_via_dominators, stg, set(X))
            for s in res:
                seq = ctx.tr(s)
                if not ctx.is_route_edges(seq):
                    return violation("foreign_edge", f"sequence {s} has a non-edge", labels)
                if not _safe(ctx, seq, X):
                    return violation("unsafe_sequence", f"maximal_safe_sequences_via_dominators returned {s} for X={X}: every x in X has a walk avoiding it", labels)
                nontrivial |= len(seq) >= 3 or _gap(seq)
                if max(Counter(seq).values()) >= 2:
                    labels.add("sequence_with_repeated_edge")
            labels.add(f"n_sequences:{min(len(res), 3)}")
        # ------------------------------------------------------------------ flow-safe paths
        elif target == "flow_safe":
            f = {(u, v): d["flow"] for u, v, d in G.edges(data=True)}
            res = guarded(safetyflowdecomp.compute_flow_decomp_safe_paths, G, "flow")
            allp = all_st_paths(G, limit=60)
            for p in res:
                p = [tuple(e) for e in p]
                if any(not G.has_edge(*e) for e in p) or _gap(p):
                    return violation("not_a_path", f"flow-safe path {p}", labels)
                out = {v: sum(f[(v, w)] for w in G.successors(v)) for v in G}
                excess = f[p[0]] - sum(out[p[i][1]] - f[p[i + 1]] for i in range(len(p) - 1))
                if excess <= 0:
                    return violation("unsafe_flow_path", f"{p}: excess flow {excess} <= 0 (flow {f})", labels)
                if allp is not None and len(p) >= 2:
                    # LP cross-check: can f be decomposed using only paths that do not contain p as a subpath?
                    avoid = []
                    for q in allp:
                        qe = list(zip(q[:-1], q[1:]))
                        if not any(qe[i : i + len(p)] == p for i in range(len(qe) - len(p) + 1)):
                            avoid.append(Counter(qe))
                    st_, _o, _s = bf.fixed_routes("fd", avoid, f, None, "float")
                    if st_ == "optimal":
                        return violation("unsafe_flow_path_lp", f"{p}: the flow decomposes into paths avoiding it", labels)
                    labels.add("lp_crosscheck")
                nontrivial |= len(p) >= 3
        # ------------------------------------------------------------------ slot assignment in constructed walk models
        elif target == "slots_cyc":
            cls = getattr(fp, case["cls"])
            kw = {"k": case["k"], "optimization_options": dict(case.get("opts") or {}), "solver_options": {"threads": 1}}
            if case["cls"] != "kPathCoverCycles":
                kw["flow_attr"] = "flow"
                kw["weight_type"] = int
            try:
                model = guarded(cls, G, **kw)
            except Crash as c:
                return inconclusive(f"model construction: {c.exc_type}@{c.site}", labels)
            labels.add(case["cls"])
            wtf = getattr(model, "walks_to_fix", None)
            if wtf is None:
                labels.add("not_covered:no_walks_to_fix")
                return ok(labels, False)
            seqs = [ctx_tr(model, ctx, w) for w in wtf]
            for (i, a), (j, b) in itertools.combinations(enumerate(seqs), 2):
                if wa.exists_walk_containing_both(ctx.H, ctx.S, ctx.T, a, b):
                    return violation("slots_compatible", f"walks_to_fix[{i}]={wtf[i]} and [{j}]={wtf[j]} occur together in one source-sink walk", labels)
            for s in seqs:
                if not _safe(ctx, s, [e for e in ctx.H.edges() if e[0] != ctx.S and e[1] != ctx.T]):
                    return violation("slot_sequence_unsafe", f"slot sequence {s} is not safe for the trusted set", labels)
            zero = getattr(model, "edges_set_to_zero", {}) or {}
            for (u, v, i) in zero:
                if i >= len(seqs):
                    return violation("zero_fix_bad_slot", f"{(u, v, i)}", labels)
                e = ctx_tr(model, ctx, [(u, v)])[0]
                if wa.exists_walk_containing_and_using(ctx.H, ctx.S, ctx.T, seqs[i], e):
                    return violation("zero_fix_unsound", f"edge {(u, v)} forbidden for slot {i} but a source-sink walk contains {wtf[i]} and uses it", labels)
            one = getattr(model, "edges_set_to_one", {}) or {}
            for (u, v, i) in one:
                e = ctx_tr(model, ctx, [(u, v)])[0]
                if i >= len(seqs) or e not in seqs[i]:
                    return violation("one_fix_not_in_sequence", f"{(u, v, i)} not in slot sequence", labels)
            labels.add(f"slots:{min(len(seqs), 3)}")
            if zero:
                labels.add("zero_fixed")
            nontrivial = len(seqs) >= 2 or bool(zero)
        elif target == "slots_dag":
            opts = dict(case.get("opts") or {})
            try:
                model = guarded(fp.kPathCover, G, k=case["k"], optimization_options=opts, solver_options={"threads": 1})
            except Crash as c:
                return inconclusive(f"model construction: {c.exc_type}@{c.site}", labels)
            fn = getattr(model, "_get_paths_to_fix_from_safe_lists", None)
            if fn is None:
                labels.add("not_covered:no_slot_function")
                return ok(labels, False)
            ptf = guarded(fn)
            mctx = Ctx(G, model.G)
            seqs = [mctx.tr(p) for p in ptf]
            for s in seqs:
                if not _safe(mctx, s, [e for e in mctx.H.edges() if e[0] != mctx.S and e[1] != mctx.T]):
                    return violation("slot_sequence_unsafe", f"DAG slot sequence {s} is not safe", labels)
            for (i, a), (j, b) in itertools.combinations(enumerate(seqs), 2):
                if wa.exists_walk_containing_both(mctx.H, mctx.S, mctx.T, a, b):
                    return violation("slots_compatible", f"paths_to_fix[{i}]={ptf[i]} and [{j}]={ptf[j]} lie on a common source-sink path", labels)
            labels.add(f"slots:{min(len(seqs), 3)}")
            nontrivial = len(seqs) >= 2
        else:
            return invalid_config("target")
    except Crash as c:
        return violation("crash", f"{target}: {c}", labels, site=c.site)
    return ok(labels, nontrivial)


def ctx_tr(model, ctx, seq):
    ren = {model.G.source: ctx.S, model.G.sink: ctx.T}
    return [(ren.get(u, u), ren.get(v, v)) for (u, v) in seq]
