"""C05 - optimisation options never change solvability or the optimal objective (differential / metamorphic)."""
import copy

from hypothesis import strategies as st

from .. import gen
from ..common import TOL, graph_from_json, inconclusive, invalid_config, ok, violation
from ..models import CYC_CLASSES, MIN_CLASSES, ROUTE_KEY, run_model, rerun_presolve_off, timed_out

ID = "C05"
LEVEL = "exploration"
TECHNIQUE = "property-based testing (Hypothesis): differential testing of every documented optimisation flag (single flips, all-on, random combinations) against the all-off baseline on the same generated input"
LEVEL_TEXT = (
    "Generated-input differential exploration: for each generated model construction (12 classes) the instance is solved with all "
    "documented optimisation flags off and with a generated flag assignment (each single flag flipped from its default, all-on, random "
    "combinations); solved status and objective (#routes for Min*, total error / slack for the inexact models, solved-ness for k-FD / "
    "cover) must agree.  The baseline itself is tied to ground truth by C03/C04/C07/C08/C09."
)
LEVEL_NOTE = "Trusted: HiGHS, CPython, Hypothesis. Combinations the library documents as contradictory and rejects with its 'Cannot optimize with both' ValueError are counted as invalid configurations."
RULE = (
    "case = model_cases() input + option dict over the class's documented flags. non-trivial = both runs solved AND the variant really "
    "engaged an optimisation (non-empty safe lists / walks_to_fix / zero- or one-fixed variables, greedy or given-weights route, min-gen-set "
    "or scanning lower bound) AND the instance needs >= 2 routes or has a positive objective; distinct = case hash."
)
ASSUMPTIONS = ["inputs satisfy the model's documented assumptions (planted routes; every edge on a source-sink route)"]
BUDGET = {"quick": {"examples": 1000, "deadline_s": 110}, "thorough": {"examples": 14000, "deadline_s": 900}}


@st.composite
def strategy_(draw, tier):
    big = tier == "thorough"
    focus = draw(st.integers(0, 2)) == 0
    if focus:
        # focus class: DAG models with user constraints (count-, length-based or 'wild'), where safety information and constraints are
        # turned into each other by class-specific code
        case = draw(gen.model_cases(classes=["kLeastAbsErrors", "kMinPathError", "kFlowDecomp", "MinFlowDecomp", "kLeastAbsErrors", "kPathCover", "MinPathCover"],
                                    max_nodes=7 if big else 6, p_opts=0, p_constr=1, p_ignore=6, p_se=6, p_node=6, k_slack=1, p_len=2, p_wild=3, p_hub=3))
    else:
        case = draw(gen.model_cases(max_nodes=7 if big else 6, p_opts=0, p_constr=2, p_ignore=5, p_se=5, p_node=5, k_slack=1, p_len=3, p_wild=4))
    cls = case["cls"]
    variant = draw(gen.option_dicts(cls, mode=draw(st.sampled_from(["single", "single", "single", "random", "random", "all_on", "default"]))))
    ckey = "subset_constraints" if cls in CYC_CLASSES else "subpath_constraints"
    if case["kw"].get(ckey) and (focus or draw(st.booleans())):
        # flags that turn safety information / constraints into (additional) constraints interact with the user's constraints:
        # exercise them together, with the MILP really built
        if cls in CYC_CLASSES:
            variant = {"optimize_with_safety_as_subset_constraints": draw(st.booleans()), "optimize_with_max_safe_antichain_as_subset_constraints": draw(st.booleans()),
                       "optimize_with_safe_sequences": draw(st.booleans())}
        else:
            variant = {"optimize_with_safety_as_subpath_constraints": True, "optimize_with_subpath_constraints_as_safe_sequences": draw(st.sampled_from([True, True, False])),
                       "optimize_with_safe_paths": draw(st.booleans())}
            if cls in ("kFlowDecomp", "MinFlowDecomp"):
                variant["optimize_with_greedy"] = False
                variant["optimize_with_flow_safe_paths"] = not variant["optimize_with_safe_paths"]
    if cls == "kLeastAbsErrorsCycles" or cls == "kLeastAbsErrors":
        # these classes take the trusted set from the caller: the documented way to enable safety for them
        # Sound only if EVERY optimal solution uses every trusted edge (the documented obligation of the caller): guaranteed when
        # the weights are an exact superposition of <= k planted routes (optimum 0 => every positive edge is covered), nothing is
        # ignored / scaled and no extra starts/ends are declared.
        m_ = case["meta"]
        kw_ = case["kw"]
        exact = m_.get("noise_total", 1) == 0 and not kw_.get("elements_to_ignore") and not kw_.get("error_scaling") and not kw_.get("additional_starts") and not kw_.get("additional_ends")
        if draw(st.booleans()) and exact and kw_.get("k", 0) >= len({tuple(r) for r, _w in m_.get("planted", [])}) > 0:
            es = [[u, v] for u, v, d in case["graph"]["edges"] if d.get("flow", 0) > 0]
            if es and kw_.get("flow_attr_origin") != "node":
                kw_["trusted_edges_for_safety"] = es
                m_["trusted_given"] = True
    case["variant"] = variant
    return case


def strategy(tier):
    return strategy_(tier)


def _objective(cls, r):
    if not r.solved:
        return None
    if cls in MIN_CLASSES:
        return len(r.solution[ROUTE_KEY[cls]])
    if cls in ("kLeastAbsErrors", "kLeastAbsErrorsCycles", "kMinPathError", "kMinPathErrorCycles"):
        return float(r.objective)
    return "solved"


def _engaged(model):
    hits = []
    for m in (model, getattr(model, "fd_model", None), getattr(model, "model", None)):
        if m is None:
            continue
        for attr in ("safe_lists", "walks_to_fix", "edges_set_to_zero", "edges_set_to_one"):
            v = getattr(m, attr, None)
            if v:
                hits.append(attr)
        if getattr(m, "external_solution_paths", None) is not None:
            hits.append("greedy")
        if getattr(m, "solution_weights_superset", None) is not None:
            hits.append("given_weights")
        if getattr(m, "_generating_set", None) is not None:
            hits.append("min_gen_set")
        if getattr(m, "_given_weights_model", None) is not None:
            hits.append("guessed_weights")
    return sorted(set(hits))


def run_case(case, tier="quick"):
    try:
        cls = case["cls"]
        variant = dict(case.get("variant") or {})
        flags = gen.flags_for(cls)
        if any(f not in flags for f in variant):
            return invalid_config("unknown flag for this class")
        graph_from_json(case["graph"])
    except Exception as e:
        return invalid_config(f"malformed case {e!r}")
    labels = {cls} | {f"flag:{f}={v}" for f, v in variant.items()}
    if case["kw"].get("trusted_edges_for_safety"):
        # the caller's obligation (all optimal solutions use all trusted edges) is only certain for exact planted instances
        from ..oracle.routes import check_route

        kw_, m_ = case["kw"], case.get("meta") or {}
        G_ = graph_from_json(case["graph"])
        planted = m_.get("planted") or []
        acc = {}
        okp = bool(planted) and all(check_route(G_, list(r), (), (), simple=cls not in CYC_CLASSES) is None for r, _w in planted)
        if okp:
            for r, w in planted:
                for e in zip(r[:-1], r[1:]):
                    acc[e] = acc.get(e, 0) + w
            okp = all(abs(acc.get((u, v), 0) - d.get("flow", 0)) < 1e-9 for u, v, d in G_.edges(data=True)) and kw_.get("k", 0) >= len({tuple(r) for r, _w in planted})
        if not okp or kw_.get("elements_to_ignore") or kw_.get("error_scaling") or kw_.get("additional_starts") or kw_.get("additional_ends"):
            return invalid_config("trusted_edges_for_safety given without a guarantee that every optimal solution uses them")
        labels.add("trusted_edges_given")
    base_case = copy.deepcopy(case)
    base_case["kw"]["optimization_options"] = {f: False for f in flags}
    var_case = copy.deepcopy(case)
    var_case["kw"]["optimization_options"] = dict(variant)
    try:
        rb = run_model(base_case, tier)
        rv = run_model(var_case, tier)
    except Exception as e:
        return invalid_config(f"harness could not build the call: {e!r}")
    if rb.crashed:
        c = rb.crashed
        return inconclusive(f"baseline crashed: {c.exc_type}@{c.site}", labels)
    if rv.crashed:
        c = rv.crashed
        if c.exc_type == "ValueError" and ("Cannot optimize with both" in c.msg or "trusted_edges_for_safety must be provided" in c.msg):
            return invalid_config(f"documented contradictory option combination: {c.msg[:80]}")
        return violation("variant_crash", f"options {variant} make {cls} raise {c} (baseline all-off is fine)", labels, site=c.site)
    if timed_out(rb) or timed_out(rv):
        return inconclusive("time_limit", labels)
    ob, ov = _objective(cls, rb), _objective(cls, rv)
    facts = {"baseline": ob, "variant": ov, "fix_via_bounds": bool(variant.get("optimize_with_safe_sequences_fix_via_bounds"))}
    differs = bool(rb.solved) != bool(rv.solved)
    if not differs and rb.solved:
        if isinstance(ob, float):
            differs = abs(ob - ov) > TOL * (1 + abs(ob)) * 10
        else:
            differs = ob != ov
    if differs:
        # rule out HiGHS presolve artefacts (trusted base): both runs again with presolve off
        rb2, rv2 = rerun_presolve_off(base_case, tier), rerun_presolve_off(var_case, tier)
        if not rb2.crashed and not rv2.crashed:
            ob2, ov2 = _objective(cls, rb2), _objective(cls, rv2)
            same2 = bool(rb2.solved) == bool(rv2.solved) and (not rb2.solved or (abs(ob2 - ov2) <= TOL * (1 + abs(ob2)) * 10 if isinstance(ob2, float) else ob2 == ov2))
            if same2:
                return inconclusive("solver artefact: difference disappears with HiGHS presolve off", labels)
        kind = "options_change_solvability" if bool(rb.solved) != bool(rv.solved) else "options_change_objective"
        return violation(kind, f"{cls}: all-off baseline solved={rb.solved} objective={ob}; with {variant}: solved={rv.solved} objective={ov}", labels, facts=facts)
    eng = _engaged(rv.model) if rv.model is not None else []
    for e in eng:
        labels.add("engaged:" + e)
    big_enough = rb.solved and ((isinstance(ob, int) and ob >= 2) or (isinstance(ob, float) and ob > TOL) or (ob == "solved" and len(case["graph"]["edges"]) >= 3))
    return ok(labels, bool(rb.solved and eng and big_enough), facts)
