"""C14 - walk reconstruction uses every edge exactly as often as the solver decided.

Solver-free: a minimal concrete subclass of AbstractWalkModelDiGraph is instantiated on a generated
stDiGraph and `edge_vars_sol` is set directly to a generated balanced, connected s-t multiplicity
assignment (per layer).  Oracle: the returned walk, re-wrapped with the synthetic source/sink, is a walk
of the graph whose edge multiset equals the assignment exactly; an all-zero layer yields [].
"""
from collections import Counter

import networkx as nx
from hypothesis import strategies as st

from .. import gen
from ..common import Crash, graph_from_json, guarded, ok, violation, invalid_config

ID = "C14"
LEVEL = "exploration"
RULE = (
    "cases = (digraph with cycles, 1-3 layers of edge-multiplicity assignments); each assignment is built by "
    "construction as the edge multiset of a random source->sink walk of the augmented graph plus recursively "
    "spliced closed walks (multiplicities up to 6), optionally perturbed by +-1e-7 solver noise, or all zero. "
    "non-trivial = some multiplicity >= 2 AND >= 2 extra closed walks spliced (at least one of them attached at a "
    "vertex off the base walk when labelled 'nested'); distinct = canonical hash of the whole case."
)
ASSUMPTIONS = [
    "edge_vars_sol is injected directly (the documented observation point is get_solution_walks() for a given assignment)",
    "assignments are balanced at inner nodes, leave the synthetic source exactly once and are connected (by construction)",
]
BUDGET = {
    "quick": {"examples": 12000, "deadline_s": 70},
    "thorough": {"examples": 250000, "deadline_s": 600},
}


def _model_class():
    import flowpaths as fp

    class _Bare(fp.AbstractWalkModelDiGraph):
        def get_solution(self):
            return None

        def get_lowerbound_k(self):
            return 1

        def is_valid_solution(self):
            return True

        def get_objective_value(self):
            return None

    return _Bare


# ------------------------------------------------------------------------------------------------ generator
@st.composite
def strategy_(draw, tier):
    big = tier == "thorough"
    nodes, edges = draw(gen.cyclic_digraphs(max_skel=4 if not big else 5, max_nodes=6 if not big else 8, odd_names=True))
    ch = draw(gen.choosers(80))
    nlayers = draw(st.integers(1, 3))
    # augmented graph (SRC/SNK stand for the synthetic endpoints)
    G = nx.DiGraph()
    G.add_nodes_from(nodes)
    G.add_edges_from(edges)
    srcs = [v for v in nodes if G.in_degree(v) == 0]
    snks = [v for v in nodes if G.out_degree(v) == 0]
    scc = {}
    for i, comp in enumerate(nx.strongly_connected_components(G)):
        for v in comp:
            scc[v] = i
    layers = []
    for _ in range(nlayers):
        kind = draw(st.sampled_from(["walk", "spliced", "spliced", "spliced", "spliced", "spliced", "zero"]))
        if kind == "zero":
            layers.append({"kind": "zero", "mult": [], "noise": 0, "first": None, "last": None, "n_closed": 0, "nested": False})
            continue
        base = gen.random_st_walk(ch, nodes, edges, target_len=1 + ch.below(8), cap=20)
        cnt = Counter(zip(base[:-1], base[1:]))
        on_base = set(base)
        visited = list(dict.fromkeys(base))
        n_closed = 0
        nested = False
        if kind == "spliced":
            for _c in range(1 + ch.below(4)):
                cands = [v for v in visited if any(scc[w] == scc[v] for w in G.successors(v))]
                if not cands:
                    break
                v0 = ch.pick(cands)
                # closed random walk from v0 inside its SCC
                cur = v0
                cw = [v0]
                for _s in range(10):
                    nxt = [w for w in G.successors(cur) if scc[w] == scc[v0]]
                    cur = ch.pick(nxt)
                    cw.append(cur)
                    if cur == v0 and ch.coin(2, 3):
                        break
                if cur != v0:
                    cw += nx.shortest_path(G, cur, v0)[1:]
                newc = Counter(zip(cw[:-1], cw[1:]))
                if any(cnt[e] + m > 6 for e, m in newc.items()):
                    continue
                cnt.update(newc)
                n_closed += 1
                if v0 not in on_base:
                    nested = True
                for x in cw:
                    if x not in visited:
                        visited.append(x)
        noise = draw(st.sampled_from([0, 0, 1, -1]))
        layers.append(
            {
                "kind": kind,
                "mult": [[u, v, m] for (u, v), m in sorted(cnt.items())],
                "noise": noise,
                "first": base[0],
                "last": base[-1],
                "n_closed": n_closed,
                "nested": nested,
            }
        )
    return {"graph": {"nodes": [[v, {}] for v in nodes], "edges": [[u, v, {}] for u, v in edges]}, "layers": layers}


def strategy(tier):
    return strategy_(tier)


# ------------------------------------------------------------------------------------------------ oracle
def run_case(case, tier="quick"):
    import flowpaths as fp

    try:
        G = graph_from_json(case["graph"])
        layers = case["layers"]
        if not layers or G.number_of_edges() == 0:
            return invalid_config("empty")
        stG = guarded(fp.stDiGraph, G)
    except Crash as c:
        return invalid_config(f"stDiGraph rejected the graph: {c}")
    except Exception as e:
        return invalid_config(f"malformed case: {e!r}")
    k = len(layers)
    try:
        model = guarded(_model_class(), stG, k)
    except Crash as c:
        return invalid_config(f"model ctor: {c}")
    sol = {}
    expected = []
    labels = set()
    nontriv = False
    for i, L in enumerate(layers):
        exp = Counter()
        try:
            for u, v, m in L["mult"]:
                if not G.has_edge(u, v) or not isinstance(m, int) or m < 0:
                    return invalid_config("assignment names a non-edge")
                if m:
                    exp[(u, v)] += m
        except Exception as e:
            return invalid_config(f"malformed layer: {e!r}")
        if exp:
            f, l = L.get("first"), L.get("last")
            if f not in G or l not in G or G.in_degree(f) != 0 or G.out_degree(l) != 0:
                return invalid_config("first/last are not a source/sink")
            exp[(stG.source, f)] += 1
            exp[(l, stG.sink)] += 1
            # sanity of the generated assignment itself (guards the oracle against malformed shrunk cases)
            bal = Counter()
            for (u, v), m in exp.items():
                bal[u] -= m
                bal[v] += m
            if any(b != 0 for n, b in bal.items() if n not in (stG.source, stG.sink)) or bal[stG.sink] != 1:
                return invalid_config("assignment not balanced")
            H = nx.DiGraph()
            H.add_edges_from(exp.keys())
            if not all(nx.has_path(H, stG.source, x) for x in H.nodes):
                return invalid_config("assignment not connected")
        eps = 1e-7 * L.get("noise", 0)
        for (u, v) in stG.edges():
            val = float(exp.get((u, v), 0))
            if exp:
                # deterministic alternating noise so that both signs hit non-zero and zero variables
                sign = 1 if (len(sol) % 2 == 0) else -1
                val = val + eps * sign
            sol[(str(u), str(v), i)] = val
        expected.append(exp)
        mx = max(exp.values(), default=0)
        if not exp:
            labels.add("layer:zero")
        else:
            labels.add("mult>=2" if mx >= 2 else "mult=1")
            labels.add(f"closed_walks:{min(L.get('n_closed', 0), 3)}")
            if L.get("nested"):
                labels.add("nested")
            if L.get("noise"):
                labels.add("noise")
            if any(u == v for (u, v) in exp):
                labels.add("selfloop_used")
            if mx >= 2 and L.get("n_closed", 0) >= 2:
                nontriv = True
    model.edge_vars_sol = sol
    try:
        walks = guarded(model.get_solution_walks)
    except Crash as c:
        return violation("crash", f"get_solution_walks raised {c}", labels, nontriv, site=c.site)
    if not isinstance(walks, list) or len(walks) != k:
        return violation("shape", f"expected {k} walks, got {walks!r}", labels, nontriv)
    for i, (w, exp) in enumerate(zip(walks, expected)):
        if not exp:
            if w != []:
                return violation("zero_layer_not_empty", f"layer {i}: all-zero assignment gave {w}", labels, nontriv)
            continue
        if not w:
            return violation("empty_walk", f"layer {i}: non-zero assignment gave an empty walk", labels, nontriv)
        if any(x in (stG.source, stG.sink) for x in w):
            return violation("synthetic_endpoint_in_walk", f"layer {i}: {w}", labels, nontriv)
        full = [stG.source] + list(w) + [stG.sink]
        got = Counter(zip(full[:-1], full[1:]))
        for e in got:
            if not stG.has_edge(*e):
                return violation("invented_edge", f"layer {i}: walk {w} uses non-edge {e}", labels, nontriv)
        if got != exp:
            missing = {str(e): exp[e] - got.get(e, 0) for e in exp if exp[e] != got.get(e, 0)}
            extra = {str(e): got[e] for e in got if e not in exp}
            return violation("multiset_mismatch", f"layer {i}: walk {w}; expected-got {missing}; extra {extra}", labels, nontriv)
    return ok(labels, nontriv)

TECHNIQUE = "property-based testing (Hypothesis): generated Eulerian s-t multigraphs injected as solver values, multiset round-trip oracle"
LEVEL_TEXT = (
    "Generated-input exploration: every generated balanced connected assignment (walk + recursively spliced closed walks, "
    "self-loops, multiplicities <= 6, +-1e-7 noise, zero layers) is reconstructed and compared as an edge multiset. "
    "Bounded by graph size (<= 8 nodes) and multiplicity; no proof of absence."
)
LEVEL_NOTE = "Trusted: CPython, networkx, Hypothesis; assignments are injected into edge_vars_sol rather than produced by a solver."
