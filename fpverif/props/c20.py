"""C20 - graph files are parsed faithfully and malformed files are rejected (grammar-based round trip)."""
import os
import shutil
import tempfile

import networkx as nx
from hypothesis import strategies as st

from .. import gen
from ..common import Crash, guarded, invalid_config, ok, violation
from ..oracle.width import dilworth

ID = "C20"
LEVEL = "exploration"
TECHNIQUE = "property-based testing (Hypothesis): grammar-based generation of multi-graph files, round trip against the generating description; single-line corruptions must raise ValueError"
LEVEL_TEXT = (
    "Files are rendered from generated descriptions (1-4 blocks; plain header lines and '#S' lines interleaved incl. duplicates and "
    "one-node lines; blank lines before the count and between edge lines; tabs / multiple spaces / indentation; int, float and "
    "exponent weights; zero-vertex blocks) and read back with read_graphs(); per block the edge set, weights, id, constraints (distinct, "
    "file order, as consecutive edge lists), n, m and width are compared with values computed from the description.  Every generated "
    "single-line corruption (2- or 4-field edge line, non-numeric weight, non-numeric count, constraint edge absent) must raise ValueError."
)
LEVEL_NOTE = "Trusted: CPython, networkx SCC/reachability for the independent width oracle, Hypothesis. Graphs <= 7 nodes; every graph has a source and a sink (documented precondition)."
RULE = (
    "case = file description (blocks of header items, count, edge items with separators and weight tokens) + optional corruption. "
    "non-trivial = >= 2 blocks, or a duplicate '#S' line, or a blank line inside the edge list, or a corruption; distinct = case hash."
)
ASSUMPTIONS = ["weights are tokens Python's float() accepts, node tokens contain no whitespace and do not start with '#'"]
BUDGET = {"quick": {"examples": 4000, "deadline_s": 80}, "thorough": {"examples": 60000, "deadline_s": 600}}

WEIGHT_TOKENS = ["1", "2", "7", "10", "3.5", "0.25", "1e2", "2.5E1", "4.0", "12", "0", "007", "+3", "1_0"]
BAD_WEIGHTS = ["x", "1,5", "--1", "1.2.3", "abc", "1e", "0x10"]
SEPS = [" ", "\t", "  ", " \t "]


@st.composite
def strategy_(draw, tier):
    big = tier == "thorough"
    nblocks = draw(st.sampled_from([2, 1, 3, 1, 4]))
    blocks = []
    for b in range(nblocks):
        ch = draw(gen.choosers(48))
        zero = ch.below(9) == 0
        if zero:
            nodes, edges = [], []
        elif ch.coin():
            nodes, edges = draw(gen.cyclic_digraphs(max_nodes=7 if big else 6, odd_names=False))
        else:
            nodes, edges = draw(gen.dags(2, 6 if big else 5, odd_names=False))
        ren = {v: ch.pick([v, v + "1", "n_" + v, v.upper(), v + "." + v, "S" + v, "S", "s#" + v, "Start" + v]) for v in nodes} if ch.coin(1, 3) else {v: v for v in nodes}
        if len(set(ren.values())) != len(ren):
            ren = {v: v for v in nodes}
        edges = [(ren[u], ren[v]) for u, v in edges]
        G = nx.DiGraph()
        G.add_edges_from(edges)
        headers = [["plain", ch.pick(["graph", "g", "gt", "sample"]) + f" {b}" + ch.pick(["", " x", ".graph", " (1.2)"])]]
        for _ in range(ch.below(3)):
            headers.append(["plain", ch.pick(["note", "k = 3", "weights are flows", "123"])])
        # '#S' lines: node sequences along walks of the graph, plus one-node lines and duplicates
        slines = []
        if edges:
            for _ in range(ch.below(4)):
                u, v = ch.pick(edges)
                seq = [u, v]
                for _s in range(ch.below(3)):
                    succ = sorted(G.successors(seq[-1]))
                    if not succ:
                        break
                    seq.append(ch.pick(succ))
                slines.append(seq)
            if slines and ch.coin(1, 2):
                slines.append(list(ch.pick(slines)))  # exact duplicate
            if ch.coin(1, 4):
                slines.append([ch.pick(sorted(G.nodes()))])  # one-node line: no edges, no constraint
        for s in slines:
            pos = 1 + ch.below(len(headers))  # never before the first plain line (the id)
            headers.insert(pos, ["S", s])
        if ch.coin(1, 5) and slines:
            headers.insert(0, ["S", slines[0]])  # a '#S' line may also come first
        eitems = []
        for (u, v) in edges:
            eitems.append({"u": u, "v": v, "w": ch.pick(WEIGHT_TOKENS[:13]), "s1": ch.pick(SEPS), "s2": ch.pick(SEPS), "indent": ch.pick(["", "", " ", "\t"]), "blank_after": ch.below(6) == 0})
        blocks.append({
            "headers": headers,
            "hash_style": ch.pick(["# ", "#", "## ", " # ", "#\t"]),
            "blank_before_count": ch.below(3) if ch.coin(1, 3) else 0,
            "count": 0 if zero else len(G.nodes()) + (ch.below(3) if ch.coin(1, 6) else 0),
            "count_pad": ch.pick(["", " ", "  "]),
            "edges": eitems,
            "trailing_blank": ch.below(2),
        })
    corruption = None
    if draw(st.integers(0, 2)) == 0:
        ch = draw(gen.choosers(8))
        cands = [i for i, b in enumerate(blocks) if b["edges"]]
        kind = ch.pick(["two_fields", "four_fields", "bad_weight", "bad_count", "absent_constraint_edge", "bad_count"])
        if kind == "bad_count" or not cands:
            corruption = {"kind": "bad_count", "block": ch.below(len(blocks)), "token": ch.pick(["x", "3.5", "n=4", "1 2", ""])}
            if corruption["token"] == "" :
                corruption["token"] = "four"
        else:
            bi = ch.pick(cands)
            corruption = {"kind": kind, "block": bi, "line": ch.below(len(blocks[bi]["edges"])), "token": ch.pick(BAD_WEIGHTS)}
    return {"blocks": blocks, "corruption": corruption, "leading_junk": draw(st.sampled_from([[], [], [""], ["", "  "]]))}


def strategy(tier):
    return strategy_(tier)


def render(case):
    """-> (lines, expected per block or None when the file is corrupted)"""
    lines = list(case.get("leading_junk", []))
    cor = case.get("corruption")
    expected = []
    for bi, b in enumerate(case["blocks"]):
        hs = b.get("hash_style", "# ")
        gid = None
        cons, seen = [], set()
        for kind, val in b["headers"]:
            if kind == "plain":
                lines.append(hs + val)
                if gid is None:
                    gid = val.strip()
            else:
                lines.append(hs.rstrip(" \t").replace("##", "#") + "S " + " ".join(val))
                key = tuple(val)
                if key not in seen:
                    seen.add(key)
                    es = list(zip(val[:-1], val[1:]))
                    if es:
                        cons.append(es)
        if cor and cor["kind"] == "absent_constraint_edge" and cor["block"] == bi:
            lines.append("#S zz_absent_1 zz_absent_2")
        lines += [""] * b.get("blank_before_count", 0)
        if cor and cor["kind"] == "bad_count" and cor["block"] == bi:
            lines.append(cor["token"])
        else:
            lines.append(b.get("count_pad", "") + str(b["count"]))
        edges = {}
        for li, e in enumerate(b["edges"]):
            w = e["w"]
            line = f"{e['indent']}{e['u']}{e['s1']}{e['v']}{e['s2']}{w}"
            if cor and cor["block"] == bi and cor.get("line") == li:
                if cor["kind"] == "two_fields":
                    line = f"{e['u']} {e['v']}"
                elif cor["kind"] == "four_fields":
                    line = f"{e['u']} {e['v']} {w} 9"
                elif cor["kind"] == "bad_weight":
                    line = f"{e['u']} {e['v']} {cor['token']}"
            lines.append(line)
            edges[(e["u"], e["v"])] = float(w)
            if e.get("blank_after"):
                lines.append("")
        lines += [""] * b.get("trailing_blank", 0)
        expected.append({"id": gid, "edges": edges, "constraints": cons, "count": b["count"]})
    return lines, (None if cor else expected)


def run_case(case, tier="quick"):
    try:
        lines, expected = render(case)
        cor = case.get("corruption")
        if cor:
            if not (0 <= cor["block"] < len(case["blocks"])):
                return invalid_config("corruption refers to a missing block")
            if cor["kind"] != "bad_count":
                if not case["blocks"][cor["block"]]["edges"] or not (0 <= cor.get("line", 0) < len(case["blocks"][cor["block"]]["edges"])):
                    return invalid_config("corruption refers to a missing edge line")
            if cor["kind"] == "bad_count":
                try:
                    int(cor["token"].strip())
                    return invalid_config("count token is numeric")
                except ValueError:
                    pass
            if cor["kind"] == "bad_weight":
                try:
                    float(cor["token"])
                    return invalid_config("weight token is numeric")
                except ValueError:
                    pass
        for b in case["blocks"]:
            if not b["headers"] or not any(k == "plain" for k, _ in b["headers"]):
                return invalid_config("block without a plain header line")
            for k, v in b["headers"]:
                if k == "plain" and (v.lstrip().startswith("S") or not v.strip() or "\n" in v):
                    return invalid_config("plain header would read as #S / empty")
            for e in b["edges"]:
                for t in (e["u"], e["v"], e["w"]):
                    if not t or any(c.isspace() for c in t) or t.startswith("#"):
                        return invalid_config("token with whitespace / '#'")
                float(e["w"])
            if len({(e["u"], e["v"]) for e in b["edges"]}) != len(b["edges"]):
                return invalid_config("duplicate edge line")
            G = nx.DiGraph()
            G.add_edges_from((e["u"], e["v"]) for e in b["edges"])
            if b["edges"] and (not any(G.in_degree(v) == 0 for v in G) or not any(G.out_degree(v) == 0 for v in G)):
                return invalid_config("graph without source or sink (outside the documented precondition)")
            if b["count"] == 0 and b["edges"]:
                return invalid_config("zero count with edges")
            if b["count"] != 0 and not b["edges"]:
                return invalid_config("positive count without edges (no source/sink)")
            for k, v in b["headers"]:
                if k == "S" and any(not G.has_edge(a, c) for a, c in zip(v[:-1], v[1:])):
                    return invalid_config("constraint not in graph")
    except Exception as e:
        return invalid_config(f"malformed case {e!r}")
    from flowpaths.utils import graphutils as gu

    labels = {f"blocks:{min(len(case['blocks']), 4)}"}
    d = tempfile.mkdtemp(prefix="fpverif-c20-")
    try:
        path = os.path.join(d, "in.graph")
        with open(path, "w") as f:
            f.write("\n".join(lines) + "\n")
        try:
            graphs = guarded(gu.read_graphs, path)
            err = None
        except Crash as c:
            graphs, err = None, c
    finally:
        shutil.rmtree(d, ignore_errors=True)
    if cor:
        labels.add("corrupt:" + cor["kind"])
        if err is None:
            return violation("corruption_accepted", f"{cor}: file was parsed without error: {lines}", labels)
        if err.exc_type != "ValueError":
            return violation("corruption_wrong_exception", f"{cor}: raised {err}", labels, site=err.site)
        return ok(labels, True)
    if err is not None:
        return violation("wellformed_rejected", f"raised {err}; file = {lines}", labels, site=err.site)
    if len(graphs) != len(expected):
        return violation("block_count", f"{len(graphs)} graphs returned for {len(expected)} blocks; file = {lines}", labels)
    nontrivial = len(expected) >= 2
    for i, (g, ex) in enumerate(zip(graphs, expected)):
        got_edges = {(u, v): dd.get("flow") for u, v, dd in g.edges(data=True)}
        if got_edges != ex["edges"]:
            return violation("edges_differ", f"block {i}: parsed {got_edges}, file says {ex['edges']}", labels)
        if g.graph.get("id") != ex["id"]:
            return violation("id_differs", f"block {i}: id {g.graph.get('id')!r}, first header text {ex['id']!r}", labels)
        if g.graph.get("constraints") != ex["constraints"]:
            return violation("constraints_differ", f"block {i}: parsed {g.graph.get('constraints')}, expected {ex['constraints']}", labels)
        if ex["count"] == 0:
            labels.add("zero_vertex_block")
            if g.number_of_nodes() != 0:
                return violation("zero_block_not_empty", f"block {i}", labels)
            continue
        G = nx.DiGraph()
        G.add_edges_from(ex["edges"].keys())
        if g.graph.get("n") != G.number_of_nodes() or g.graph.get("m") != G.number_of_edges():
            return violation("counts_differ", f"block {i}: n={g.graph.get('n')} m={g.graph.get('m')} vs {G.number_of_nodes()}/{G.number_of_edges()}", labels)
        w = dilworth(G, list(G.edges()))
        if w is not None and g.graph.get("w") != w:
            return violation("width_differs", f"block {i}: stored w={g.graph.get('w')}, Dilworth says {w}; edges {sorted(G.edges())}", labels)
        b = case["blocks"][i]
        svals = [tuple(v) for k, v in b["headers"] if k == "S"]
        if len(svals) != len(set(svals)):
            labels.add("duplicate_S")
            nontrivial = True
        if any(e.get("blank_after") for e in b["edges"]) or b.get("blank_before_count"):
            labels.add("blank_lines")
            nontrivial = True
        if not nx.is_directed_acyclic_graph(G):
            labels.add("cyclic_block")
    return ok(labels, nontrivial)
