"""C11 - node-weighted solving equals solving the explicitly node-expanded instance (differential + round trips)."""
import copy

import networkx as nx
from hypothesis import strategies as st

from .. import gen
from ..common import TOL, Crash, graph_from_json, guarded, inconclusive, invalid_config, ok, violation
from ..models import COVER_CLASSES, CYC_CLASSES, MIN_CLASSES, ROUTE_KEY, CONSTRAINT_KEY, expand_nodes, run_model, rerun_presolve_off, timed_out
from ..oracle.routes import check_route

ID = "C11"
LEVEL = "exploration"
TECHNIQUE = "property-based testing (Hypothesis): differential testing of node mode against a harness-built explicit node expansion solved in edge mode; round-trip checks on NodeExpandedDiGraph"
LEVEL_TEXT = (
    "Generated-input differential exploration over all 12 path/walk classes with a node mode (MinErrorFlow node mode is covered by C16): the harness builds its own "
    "expansion (v -> edge v|in -> v|out carrying v's value, original edges ignored, constraints / ignore lists / starts / ends / scalings "
    "translated by harness code) and solves it with the same class in edge mode; solved status and objective must agree and node-mode routes "
    "must be valid routes in original names.  Round trips on NodeExpandedDiGraph: condense(expand(path)) == path, expanded constraints, "
    "condensed graph isomorphic to the input, attribute-less nodes are ignored."
)
LEVEL_NOTE = "Trusted: HiGHS, networkx, CPython, Hypothesis. The expansion uses different node names than the library's (v|in, v|out)."
RULE = (
    "case = node-mode model construction from model_cases() (node values = planted through-flow (+ noise), some nodes without the attribute, "
    "node-level constraints / ignore / starts / ends / scaling). non-trivial = both runs solved AND (>= 1 node without attribute, or a "
    "node-level constraint, or >= 2 routes); distinct = case hash."
)
ASSUMPTIONS = ["additional starts/ends are not combined with MinFlowDecomp / MinFlowDecompCycles (they use a different, fill-in based semantics)"]
BUDGET = {"quick": {"examples": 1400, "deadline_s": 110}, "thorough": {"examples": 14000, "deadline_s": 900}}


@st.composite
def strategy_(draw, tier):
    big = tier == "thorough"
    if draw(st.integers(0, 1)) == 0:
        # focus class: DAG models whose node mode has to carry node LENGTHS into the expansion (length-based constraint coverage)
        case = draw(gen.model_cases(classes=["kPathCover", "MinPathCover", "MinPathCover", "kFlowDecomp", "MinFlowDecomp", "kLeastAbsErrors", "kMinPathError"],
                                    max_nodes=6 if big else 5, p_node=1, p_opts=0, p_constr=1, p_ignore=6, p_se=6, k_slack=1, p_len=1, p_wild=2))
    else:
        case = draw(gen.model_cases(max_nodes=6 if big else 5, p_node=1, p_opts=0, p_constr=2, p_ignore=4, p_se=4, k_slack=1, p_len=2, p_wild=4))
    cons = case["kw"].get("subpath_constraints")
    if cons and case["cls"] not in CYC_CLASSES and draw(st.integers(0, 2)) == 0:
        # node mode also accepts constraints given as edges of the input graph (they become connector edges of the expansion)
        E = {(u, v) for u, v, _d in case["graph"]["edges"]}
        if all(len(c) >= 2 and all((a, b) in E for a, b in zip(c[:-1], c[1:])) for c in cons):
            case["kw"]["subpath_constraints"] = [[[a, b] for a, b in zip(c[:-1], c[1:])] for c in cons]
            case["meta"]["edge_constraints"] = True
    if case["cls"] in ("kMinPathError", "kMinPathErrorCycles") and draw(st.integers(0, 1)) == 0:
        # k=None: the model picks the covering number of the non-ignored elements itself - in both representations
        case["kw"]["k"] = None
        case["meta"]["k_none"] = True
        weighted = [v for v, d in case["graph"]["nodes"] if "flow" in d]
        if weighted and draw(st.booleans()):
            # an element with error scale 0 counts as ignored: it must not raise the covering number either
            v = weighted[draw(st.integers(0, len(weighted) - 1))]
            sc = [x for x in case["kw"].get("error_scaling", []) if x[0] != v]
            case["kw"]["error_scaling"] = sc + [[v, 0]]
    return case


def strategy(tier):
    return strategy_(tier)


def expand_constraint(c, ne):
    """Documented translation of a node-mode constraint: a list of nodes -> their node edges; a list of edges (u, v) of the input
    graph -> for every edge the node edge of u and the connector (u|out, v|in), and after the last edge the node edge of v."""
    if c and isinstance(c[0], (list, tuple)):
        out = []
        for i, (u, v) in enumerate(c):
            out += [tuple(ne[u]), (ne[u][1], ne[v][0])]
            if i == len(c) - 1:
                out.append(tuple(ne[v]))
        return out
    return [tuple(ne[v]) for v in c]


def expanded_case(case, G):
    """The explicit edge-weighted instance equivalent to the node-weighted `case` (harness translation)."""
    cls = case["cls"]
    kw = copy.deepcopy(case["kw"])
    H, ne = expand_nodes(G, "flow")
    out = {"cls": cls, "flow_attr": "flow", "meta": {}}
    cover = cls in COVER_CLASSES
    nodes = [[v, {}] for v in H.nodes()]
    edges = []
    ignore = []
    for u, v, d in H.edges(data=True):
        edges.append([u, v, dict(d)])
    node_edges = {ne[v] for v in G.nodes()}
    for (u, v) in H.edges():
        if (u, v) not in node_edges:
            ignore.append([u, v])
    for v, d in G.nodes(data=True):
        if not cover and "flow" not in d:
            ignore.append(list(ne[v]))
    for v in kw.pop("elements_to_ignore", []):
        ignore.append(list(ne[v]))
    kw.pop("flow_attr_origin", None)
    kw.pop("cover_type", None)
    kw["elements_to_ignore"] = [list(x) for x in dict.fromkeys(tuple(e) for e in ignore)]
    ckey = CONSTRAINT_KEY[cls]
    if ckey in kw:
        kw[ckey] = [[list(e) for e in expand_constraint(c, ne)] for c in kw[ckey]]
    if "additional_starts" in kw:
        kw["additional_starts"] = [ne[v][0] for v in kw["additional_starts"]]
    if "additional_ends" in kw:
        kw["additional_ends"] = [ne[v][1] for v in kw["additional_ends"]]
    if "error_scaling" in kw:
        kw["error_scaling"] = [[list(ne[v]), s] for v, s in kw["error_scaling"]]
    la = kw.get("length_attr")
    if la is not None:
        # node lengths live on the node edges; connector edges have length 0 (as the documented expansion defines it)
        for e in edges:
            e[2].pop(la, None)
        lens = {ne[v]: d.get(la, 1) for v, d in G.nodes(data=True)}
        for e in edges:
            e[2][la] = lens.get((e[0], e[1]), 0)
    if cover:
        for e in edges:
            e[2].pop("flow", None)
    out["graph"] = {"nodes": nodes, "edges": edges}
    out["kw"] = kw
    return out


def _objective(cls, r):
    if not r.solved:
        return None
    if cls in MIN_CLASSES:
        return len([x for x in r.solution[ROUTE_KEY[cls]] if x])
    if cls in ("kLeastAbsErrors", "kLeastAbsErrorsCycles", "kMinPathError", "kMinPathErrorCycles"):
        return float(r.objective)
    return "solved"


def round_trips(G, constraints, labels, routes=()):
    import flowpaths as fp

    try:
        N = guarded(fp.NodeExpandedDiGraph, G, node_flow_attr="flow")
    except Crash as c:
        return violation("expansion_crash", f"NodeExpandedDiGraph raised {c}", labels, site=c.site)
    # attribute-less nodes are ignored; attribute copied
    for v, d in G.nodes(data=True):
        e = guarded(N.get_expanded_edge, v)
        if not N.has_edge(*e):
            return violation("roundtrip_expanded_edge", f"get_expanded_edge({v!r}) = {e} is not an edge of the expansion", labels)
        if ("flow" in d) != ("flow" in N.edges[e]) or ("flow" in d and N.edges[e]["flow"] != d["flow"]):
            return violation("roundtrip_attribute", f"node {v!r}: value {d.get('flow')} vs expanded edge {N.edges[e].get('flow')}", labels)
        if "flow" not in d and e not in N.edges_to_ignore:
            return violation("roundtrip_missing_attr_not_ignored", f"node {v!r} has no attribute but {e} is not in edges_to_ignore", labels)
    for (u, v) in G.edges():
        e = guarded(N.get_expanded_edge, (u, v))
        if not N.has_edge(*e) or e not in N.edges_to_ignore:
            return violation("roundtrip_original_edge", f"expanded original edge {e} missing or not ignored", labels)
    # condense(expand(path)) == path for every edge-path of G (short ones)
    paths = [list(r) for r in routes if r and all(v in G for v in r)][:4] + [[u, v] for (u, v) in G.edges()] + [[v] for v in G.nodes()]
    for p in paths[:16]:
        ex = []
        for i, v in enumerate(p):
            a, b = N.get_expanded_edge(v)
            ex += [a, b]
        back = guarded(N.get_condensed_paths, [ex])
        if back != [p]:
            return violation("roundtrip_path", f"condense(expand({p})) = {back}", labels)
    if constraints:
        exp = guarded(N.get_expanded_subpath_constraints, [[(tuple(v) if isinstance(v, list) else v) for v in c] for c in constraints])
        lib_ne = {v: N.get_expanded_edge(v) for v in G.nodes()}
        for c, ec in zip(constraints, exp):
            if [tuple(e) for e in ec] != expand_constraint(c, lib_ne):
                return violation("roundtrip_constraint", f"constraint {c} expanded to {ec}", labels)
    C = guarded(N.get_condensed_graph)
    if set(C.nodes()) != set(G.nodes()) or set(C.edges()) != set(G.edges()) or any(C.nodes[v].get("flow") != G.nodes[v].get("flow") for v in G):
        return violation("roundtrip_condensed_graph", "get_condensed_graph() differs from the input graph", labels)
    return None


def run_case(case, tier="quick"):
    try:
        cls = case["cls"]
        kw = case.get("kw", {})
        if kw.get("flow_attr_origin", kw.get("cover_type", "edge")) != "node":
            return invalid_config("not a node-mode case")
        G = graph_from_json(case["graph"])
        declared = {n for n, _d in case["graph"].get("nodes", [])}
        if any(u not in declared or v not in declared for u, v, _d in case["graph"].get("edges", [])):
            return invalid_config("edge endpoint missing from node list")
        if cls in ("MinFlowDecomp", "MinFlowDecompCycles") and (kw.get("additional_starts") or kw.get("additional_ends")):
            return invalid_config("fill-in semantics for starts/ends in the Min flow decomposition classes")
        if G.number_of_nodes() == 0:
            return invalid_config("empty")
        for key in ("additional_starts", "additional_ends", "elements_to_ignore"):
            if any(v not in G for v in kw.get(key, [])):
                return invalid_config("unknown node in " + key)
        ckey = CONSTRAINT_KEY[cls]
        if any(((v not in G) if isinstance(v, str) else (not G.has_edge(*v))) for c in kw.get(ckey, []) for v in c) or any(len(c) == 0 for c in kw.get(ckey, [])):
            return invalid_config("constraint")
        if cls not in COVER_CLASSES and not any("flow" in d for _v, d in G.nodes(data=True)):
            return invalid_config("no weighted node")
        ecase = expanded_case(case, G)
    except Exception as e:
        return invalid_config(f"malformed case {e!r}")
    labels = {cls}
    missing = [v for v, d in G.nodes(data=True) if "flow" not in d]
    if missing and cls not in COVER_CLASSES:
        labels.add("missing_attr")
    if kw.get(ckey):
        labels.add("edge_constraints_in_node_mode" if (case.get("meta") or {}).get("edge_constraints") else "node_constraints")
    for f_ in ("additional_starts", "additional_ends", "elements_to_ignore", "error_scaling"):
        if kw.get(f_):
            labels.add("kw:" + f_)
    if cls not in COVER_CLASSES:
        bad = round_trips(G, kw.get(ckey, []), labels, [r for r, _w in (case.get("meta") or {}).get("planted", [])])
        if bad is not None:
            return bad
    try:
        rn = run_model(case, tier)
        re_ = run_model(ecase, tier)
    except Exception as e:
        return invalid_config(f"harness could not build the call: {e!r}")
    facts = {"node_mode": True, "has_starts_ends": bool(kw.get("additional_starts") or kw.get("additional_ends"))}
    if re_.crashed:
        c = re_.crashed
        return inconclusive(f"explicit expansion crashed: {c.exc_type}@{c.site}", labels)
    if rn.crashed:
        c = rn.crashed
        return violation("node_mode_crash", f"{cls} in node mode raised {c}, while the explicit expansion is handled (solved={re_.solved})", labels, site=c.site, facts=facts)
    if timed_out(rn) or timed_out(re_):
        return inconclusive("time_limit", labels)
    on, oe = _objective(cls, rn), _objective(cls, re_)
    single_possible = any((G.in_degree(v) == 0 or v in kw.get("additional_starts", [])) and (G.out_degree(v) == 0 or v in kw.get("additional_ends", [])) for v in G)
    differs = bool(rn.solved) != bool(re_.solved)
    if not differs and rn.solved:
        differs = (abs(on - oe) > TOL * (1 + abs(oe)) * 10) if isinstance(oe, float) else on != oe
    if differs:
        rn2, re2 = rerun_presolve_off(case, tier), rerun_presolve_off(ecase, tier)
        if not rn2.crashed and not re2.crashed:
            on2, oe2 = _objective(cls, rn2), _objective(cls, re2)
            if bool(rn2.solved) == bool(re2.solved) and (not rn2.solved or ((abs(on2 - oe2) <= TOL * (1 + abs(oe2)) * 10) if isinstance(oe2, float) else on2 == oe2)):
                return inconclusive("solver artefact: difference disappears with HiGHS presolve off", labels)
        return violation(
            "node_vs_expansion_differ",
            f"{cls}: node mode solved={rn.solved} objective={on}; explicit expansion solved={re_.solved} objective={oe}",
            labels,
            facts=dict(facts, single_node_route=single_possible and cls in MIN_CLASSES),
        )
    if rn.solved:
        routes = [x for x in rn.solution[ROUTE_KEY[cls]] if x]
        for rt in routes:
            bad = check_route(G, rt, kw.get("additional_starts", []), kw.get("additional_ends", []), simple=cls not in CYC_CLASSES)
            if bad:
                return violation("route:" + bad[0], bad[1], labels, facts=facts)
        labels.add("solved")
        nontrivial = bool(missing and cls not in COVER_CLASSES) or bool(kw.get(ckey)) or len(routes) >= 2
        return ok(labels, nontrivial, facts)
    labels.add("both_unsolved")
    return ok(labels, False, facts)
