"""C15 - MinGenSet and MinSetCover return true optima whenever one exists."""
import itertools

from hypothesis import strategies as st

from .. import gen
from ..common import Crash, guarded, inconclusive, invalid_config, ok, violation
from ..oracle import genset as gs

ID = "C15"
LEVEL = "exploration"
TECHNIQUE = "property-based testing (Hypothesis): planted generating sets / random set-cover instances, exhaustive brute-force optimum as oracle"
LEVEL_TEXT = (
    "Generated-input exploration: number lists are built from a planted generating multiset (so a solution exists by construction), "
    "with multiplicities 1-3, duplicates, numbers exceeding the total, complement / sums-of-two removal, planted-consistent partition "
    "constraints and both weight types; the returned multiset is validated against every ORIGINAL input number and its size is compared "
    "with an exhaustive minimum (all partitions of the total for int; coefficient-matrix enumeration + LP for float on tiny inputs). "
    "MinSetCover instances (universe <= 8, <= 8 subsets, int/float/default weights) are compared with an exhaustive minimum-weight cover."
)
LEVEL_NOTE = "Trusted: CPython, Hypothesis, HiGHS only as LP feasibility engine for the float lower bound. Totals <= 24, set sizes <= 4."
RULE = (
    "case kind=genset: (numbers, total, weight_type, max_multiplicity, lowerbound, partition_constraints, remove flags) from a planted set; "
    "kind=setcover: (universe, subsets, weights|None). non-trivial genset = optimum >= 2 or a removal flag / partition constraint / "
    "multiplicity > 1 in effect; non-trivial setcover = optimum uses >= 2 subsets; distinct = case hash."
)
ASSUMPTIONS = ["lowerbound <= true optimum (checked with the oracle, otherwise the case is out of domain)"]
BUDGET = {"quick": {"examples": 2500, "deadline_s": 90}, "thorough": {"examples": 40000, "deadline_s": 900}}


@st.composite
def strategy_(draw, tier):
    ch = draw(gen.choosers(48))
    if draw(st.integers(0, 3)) == 0:
        n = draw(st.integers(1, 8))
        universe = list(range(n)) if ch.coin() else [f"u{i}" for i in range(n)]
        m = draw(st.integers(1, 8))
        subsets = []
        for _ in range(m):
            s = ch.subset(universe, 1, 2) or [ch.pick(universe)]
            subsets.append(s)
        # make sure a cover exists
        missing = [u for u in universe if not any(u in s for s in subsets)]
        if missing:
            subsets.append(missing)
        wkind = ch.pick(["int", "float", "none", "int"])
        if wkind == "none":
            weights = None
        elif wkind == "int":
            weights = [1 + ch.below(5) for _ in subsets]
        else:
            weights = [(1 + ch.below(9)) * 0.5 for _ in subsets]
        return {"kind": "setcover", "universe": universe, "subsets": subsets, "weights": weights}
    mult = draw(st.sampled_from([1, 2, 1, 3, 1]))
    size = draw(st.sampled_from([2, 3, 1, 4, 3]))
    wt = draw(st.sampled_from(["int", "float", "int"]))
    planted = [1 + ch.below(6) for _ in range(size)]
    if wt == "float" and ch.coin():
        planted = [x * 0.5 for x in planted]
        if mult >= 2 and ch.coin():
            # small elements with a fractional largest value: the region where a multiplicity can exceed the data it produces
            planted = [ch.pick([0.5, 0.5, 1.0, 1.5]) for _ in planted]
    nnum = 1 + ch.below(4)
    numbers = []
    for _ in range(nnum):
        coefs = [ch.below(mult + 1) for _ in planted]
        if not any(coefs):
            coefs[ch.below(size)] = 1
        numbers.append(sum(c * g for c, g in zip(coefs, planted)))
    if ch.coin(1, 4) and numbers:
        numbers.append(numbers[0])  # duplicate
    total = sum(planted)
    case = {"kind": "genset", "numbers": numbers, "total": total, "weight_type": wt, "max_multiplicity": mult, "planted": planted}
    if ch.coin(1, 3):
        case["remove_complement_values"] = ch.coin()
    if ch.coin(1, 3):
        case["remove_sums_of_two"] = ch.coin()
    if mult == 1 and ch.coin(1, 3):
        # planted-consistent partition constraints: split the planted set into groups
        cons = []
        for _ in range(1 + ch.below(2)):
            groups = {}
            ngroups = 1 + ch.below(min(3, size))
            for i, g in enumerate(planted):
                groups.setdefault(ch.below(ngroups), []).append(g)
            cons.append([sum(v) for v in groups.values()])
        case["partition_constraints"] = cons
    if ch.coin(1, 5):
        case["lowerbound"] = 1 + ch.below(2)
    return case


def strategy(tier):
    return strategy_(tier)


def _gen_float(g, number, mult, tol):
    for xs in itertools.product(range(mult + 1), repeat=len(g)):
        if abs(sum(x * gi for x, gi in zip(xs, g)) - number) <= tol:
            return True
    return False


def run_setcover(case):
    import flowpaths as fp

    try:
        U, S, W = case["universe"], case["subsets"], case["weights"]
        if not U or not S or (W is not None and (len(W) != len(S) or any(w <= 0 for w in W))):
            return invalid_config("shape")
        if any(x not in U for s in S for x in s):
            return invalid_config("subset element outside universe")
    except Exception as e:
        return invalid_config(f"malformed {e!r}")
    labels = {"kind:setcover", "weights:" + ("default" if W is None else type(W[0]).__name__)}
    Wref = W if W is not None else [1] * len(S)
    best, arg = gs.min_set_cover(U, S, Wref)
    if best is None:
        return invalid_config("no cover exists")
    kw = {"universe": list(U), "subsets": [list(s) for s in S], "solver_options": {"threads": 1}}
    if W is not None:
        kw["subset_weights"] = list(W)
    try:
        m = guarded(fp.MinSetCover, **kw)
        guarded(m.solve)
        solved = guarded(m.is_solved)
    except Crash as c:
        return violation("crash", f"MinSetCover on a valid instance raised {c} (weights={W})", labels, site=c.site)
    if not solved:
        return violation("unsolved", f"a cover exists ({arg}) but MinSetCover is not solved", labels)
    try:
        sol = guarded(m.get_solution)
    except Crash as c:
        return violation("crash", f"get_solution: {c}", labels, site=c.site)
    cov = set()
    for i in sol:
        cov |= set(S[i])
    if not set(U) <= cov:
        return violation("not_a_cover", f"returned {sol} misses {sorted(set(U) - cov, key=str)}", labels)
    w = sum(Wref[i] for i in sol)
    if w > best + 1e-9:
        return violation("cover_not_minimum", f"returned weight {w} ({sol}) but {arg} has weight {best}", labels)
    return ok(labels, len(arg) >= 2)


def run_genset(case):
    import flowpaths as fp

    try:
        numbers, total, wt = list(case["numbers"]), case["total"], case.get("weight_type", "float")
        mult = case.get("max_multiplicity", 1)
        pcs = case.get("partition_constraints")
        lb = case.get("lowerbound", 1)
        if not numbers or any(n <= 0 for n in numbers) or total <= 0 or mult < 1 or lb < 1:
            return invalid_config("shape")
        if pcs is not None and (mult > 1 or any(abs(sum(c) - total) > 1e-9 for c in pcs) or any(x <= 0 for c in pcs for x in c)):
            return invalid_config("partition constraints")
        integral = all(float(x).is_integer() for x in numbers + [total])
        if wt == "int" and not integral:
            return invalid_config("fractional data with int type")
    except Exception as e:
        return invalid_config(f"malformed {e!r}")
    labels = {"kind:genset", f"wt:{wt}", f"mult:{mult}"}
    if any(n > total for n in numbers):
        labels.add("number_exceeds_total")
    # reference optimum
    if integral:
        inumbers, itotal = [int(n) for n in numbers], int(total)
        ipcs = [[int(x) for x in c] for c in pcs] if pcs else None
        if pcs and any(not float(x).is_integer() for c in pcs for x in c):
            return invalid_config("fractional partition constraint")
        if itotal > 30:
            return invalid_config("total too large for the brute force")
        kint, wit = gs.min_genset_int(inumbers, itotal, mult, ipcs, kmax=5)
    else:
        # scale dyadic data by 2 to integers for an upper bound on the float optimum
        if not all(float(x * 2).is_integer() for x in numbers + [total]):
            return invalid_config("data not multiples of 0.5")
        kint, wit = gs.min_genset_int([int(n * 2) for n in numbers], int(total * 2), mult, [[int(x * 2) for x in c] for c in pcs] if pcs else None, kmax=5)
        if wit:
            wit = [x / 2 for x in wit]
    if kint is None:
        return invalid_config("no generating multiset with <= 5 elements")
    if wt == "int" and lb > kint:
        return invalid_config("lowerbound above the optimum")
    kw = {"numbers": list(numbers), "total": total, "weight_type": int if wt == "int" else float, "max_multiplicity": mult, "lowerbound": lb, "solver_options": {"threads": 1, "time_limit": 60}}
    for f in ("remove_complement_values", "remove_sums_of_two"):
        if f in case:
            kw[f] = case[f]
            labels.add(f"{f}:{case[f]}")
    if pcs is not None:
        kw["partition_constraints"] = [list(c) for c in pcs]
        labels.add("partition_constraints")
    before = list(numbers)
    try:
        m = guarded(fp.MinGenSet, **kw)
        guarded(m.solve)
        solved = guarded(m.is_solved)
    except Crash as c:
        return violation("crash", f"MinGenSet on a valid instance raised {c}", labels, site=c.site)
    if numbers != before:
        return violation("input_mutated", f"numbers list changed from {before} to {numbers}", labels)
    if not solved:
        st_ = None
        try:
            st_ = m.solver.get_model_status()
        except Exception:
            pass
        if st_ in ("kTimeLimit",):
            return inconclusive("time_limit", labels)
        # F26 (known): the integer*continuous product helper represents a multiplicity with ceil(log2(ub+1)) bits, where
        # ub = max(total, numbers) bounds the PRODUCT; larger multiplicities (needed when an element is below 1) are cut off.
        # The fact is computed from that documented design, not from the model: does any generating multiset exist whose
        # multiplicities stay within that representable range?
        import math

        design_cap = min(mult, 2 ** math.ceil(math.log2(max([total] + list(numbers)) + 1)) - 1)
        within = None
        if design_cap >= 1:
            if integral or all(float(x * 2).is_integer() for x in numbers + [total]):
                f_ = 1 if integral else 2
                within = gs.min_genset_int([int(n * f_) for n in numbers], int(total * f_), design_cap, None, kmax=5)[0] is not None
            if not within:
                for k_ in range(1, 4):
                    ex = gs.exists_genset_float(list(numbers), total, design_cap, k_)
                    if ex:
                        within = True
                        break
                    if ex is None and within is None:
                        break
        return violation("unsolved", f"a generating multiset exists ({wit}) but MinGenSet is not solved", labels,
                         facts={"number_exceeds_total": any(n > total for n in numbers), "mult_exceeds_data": mult > max([total] + list(numbers)), "wt": wt,
                                "design_cap": design_cap, "solution_within_design_cap": bool(within), "design_cap_explains": design_cap < mult and not within and not pcs})
    try:
        sol = list(guarded(m.get_solution))
    except Crash as c:
        return violation("crash", f"get_solution: {c}", labels, site=c.site)
    tol = 1e-6 * (1 + total)
    if any(x < -tol for x in sol) or abs(sum(sol) - total) > tol:
        return violation("invalid_multiset", f"{sol}: negative element or sum != total {total}", labels)
    if wt == "int" and any(type(x) is not int for x in sol):
        return violation("element_type", f"{sol!r}", labels)
    for n in numbers:
        okn = gs.generable(sol, int(n), mult) if wt == "int" else _gen_float(sol, n, mult, tol)
        if not okn:
            return violation("number_not_generated", f"input number {n} is not a sub-multiset sum (multiplicity {mult}) of the returned {sol}", labels)
    for c in pcs or []:
        if wt == "int" and not gs._partition_ok(sol, [int(x) for x in c]):
            return violation("partition_constraint_violated", f"{sol} cannot be split into groups summing to {c}", labels)
    k = len(sol)
    facts = {"returned": k, "int_optimum": kint}
    if wt == "int":
        if k != max(kint, lb) and k != kint:
            return violation("genset_not_minimum", f"returned {sol} ({k} elements) but {wit} ({kint}) is a valid generating multiset; lowerbound={lb}", labels, facts=facts)
        if k > kint and k > lb:
            return violation("genset_not_minimum", f"returned {k} elements, optimum {kint}, lowerbound {lb}", labels, facts=facts)
    else:
        if k > max(kint, lb):
            return violation("genset_not_minimum", f"float: returned {sol} ({k}) but {wit} ({kint}) is valid; lowerbound={lb}", labels, facts=facts)
        # exact lower bound for reals on tiny inputs: no generating multiset with k-1 elements
        if k - 1 >= max(lb, 1):
            ex = gs.exists_genset_float(sorted(set(numbers)), total, mult, k - 1)
            if ex is True and not pcs:
                return violation("genset_not_minimum", f"float: returned {k} elements but a real generating multiset with {k - 1} exists", labels, facts=facts)
            if ex is not None:
                labels.add("float_lower_bound_exact")
    labels.add(f"optimum:{min(k, 4)}")
    nontrivial = k >= 2 or mult > 1 or bool(pcs) or "remove_complement_values" in case or "remove_sums_of_two" in case
    return ok(labels, nontrivial, facts)


def run_case(case, tier="quick"):
    try:
        kind = case["kind"]
    except Exception:
        return invalid_config("kind")
    try:
        if kind == "setcover":
            return run_setcover(case)
        if kind == "genset":
            return run_genset(case)
    except (KeyError, TypeError, ValueError, IndexError) as e:
        return invalid_config(f"malformed case {e!r}")
    return invalid_config("kind")
