"""C02 - flow decompositions explain every non-ignored edge's (node's) flow exactly."""
from collections import Counter

from hypothesis import strategies as st

from .. import gen
from ..common import TOL, graph_from_json, inconclusive, invalid_config, ok, violation
from ..models import CYC_CLASSES, ROUTE_KEY, flow_of, run_model, timed_out
from ..oracle.routes import check_route

ID = "C02"
LEVEL = "exploration"
TECHNIQUE = "property-based testing (Hypothesis): planted conserving flows, recomputation oracle over returned routes and weights"
LEVEL_TEXT = (
    "Generated-input exploration of kFlowDecomp, MinFlowDecomp, kFlowDecompCycles, MinFlowDecompCycles on planted "
    "conserving flows; for every solved model the superposition sum_i w_i * traversals_i(e) is recomputed from the "
    "returned routes and compared with the input (exact for int, 1e-6 relative for float), and weight types are checked. "
    "All three solution routes (greedy, MILP, given weights) are forced by generated options."
)
LEVEL_NOTE = "Trusted: CPython, networkx, Hypothesis. Independent of is_valid_solution(). Sizes <= 5/7 nodes, weights <= 24."
RULE = (
    "cases = planted superpositions of 1-4 weighted source->sink paths (DAG) / 1-3 walks (cyclic, multiplicities > 1 common), "
    "int or dyadic-float weights, edge or node origin, optional ignored elements (their flow re-drawn), constraints from "
    "planted routes, k in k0..k0+2, route in {default/greedy, MILP (greedy off), given weights}. "
    "non-trivial = solved AND (>= 2 routes with distinct weights, or a walk traversing an edge twice, or an ignored "
    "element, or node origin); distinct = case hash."
)
ASSUMPTIONS = ["flows are conserving by construction (planted) except in the separately labelled perturbed-data class (one value zeroed or shifted by 1, nothing claimed about solvability there); float data are dyadic so conservation holds exactly"]
BUDGET = {"quick": {"examples": 1800, "deadline_s": 90}, "thorough": {"examples": 30000, "deadline_s": 900}}

FD = ["kFlowDecomp", "MinFlowDecomp", "kFlowDecompCycles", "MinFlowDecompCycles"]


@st.composite
def strategy_(draw, tier):
    big = tier == "thorough"
    case = draw(gen.model_cases(classes=FD, max_nodes=7 if big else 5, noise=False, p_opts=0, p_se=6))
    route = draw(st.sampled_from(["default", "milp", "given", "milp"]))
    cls = case["cls"]
    kw = case["kw"]
    opts = {}
    planted_w = sorted({w for _r, w in case["meta"]["planted"]})
    if route == "milp":
        if cls in ("kFlowDecomp", "MinFlowDecomp"):
            opts["optimize_with_greedy"] = False
        else:
            opts["optimize_with_safe_sequences"] = draw(st.booleans())
    elif route == "given":
        extra = draw(st.lists(st.integers(1, 6), max_size=2))
        if cls == "kFlowDecomp":
            ws = [w for _r, w in case["meta"]["planted"]] + [type(planted_w[0])(x) for x in extra]
            kw["solution_weights_superset"] = ws
        elif cls == "MinFlowDecomp":
            opts["optimize_with_guessed_weights"] = True
            if draw(st.booleans()):
                opts["use_min_gen_set_lowerbound"] = True
        elif cls == "kFlowDecompCycles":
            ws = [w for _r, w in case["meta"]["planted"]][: kw["k"]]
            opts["given_weights"] = ws
            opts["optimize_with_safe_sequences"] = False
        else:
            opts["optimize_with_guessed_weights"] = True
            if draw(st.booleans()):
                opts["use_min_gen_set_lowerbound"] = True
                opts["add_min_gen_set_to_given_weights"] = draw(st.booleans())
    if opts:
        kw["optimization_options"] = opts
    case["meta"]["route"] = route
    # requested type int, but the data are fractional: nothing may be reported solved unless it is exact (F36)
    if kw.get("weight_type") == "int" and draw(st.integers(0, 9)) == 0:
        for _n, d in case["graph"]["nodes"] + [[None, d] for _u, _v, d in case["graph"]["edges"]]:
            if "flow" in d:
                d["flow"] = d["flow"] * 0.5
        if "solution_weights_superset" in kw:
            kw["solution_weights_superset"] = [w * 0.5 for w in kw["solution_weights_superset"]]
        if "given_weights" in (kw.get("optimization_options") or {}):
            kw["optimization_options"]["given_weights"] = [w * 0.5 for w in kw["optimization_options"]["given_weights"]]
        case["meta"]["fractional_data_int_type"] = True
    # requested type float, but the data are Python ints (what the package's own examples do)
    if kw.get("weight_type") == "float" and draw(st.integers(0, 2)) == 0:
        items = case["graph"]["nodes"] + [[None, d] for _u, _v, d in case["graph"]["edges"]]
        vals = [d["flow"] for _n, d in items if "flow" in d]
        if vals and all(float(v).is_integer() for v in vals):
            for _n, d in items:
                if "flow" in d:
                    d["flow"] = int(d["flow"])
            case["meta"]["int_data_float_type"] = True
    # large values (read counts of 10^9 are ordinary data): exact integer arithmetic must not be replaced by tolerances
    if (kw.get("weight_type") == "int" and case["cls"] in ("kFlowDecomp", "MinFlowDecomp") and not case["meta"].get("fractional_data_int_type")
            and route == "default" and kw.get("flow_attr_origin") != "node" and not kw.get("elements_to_ignore") and draw(st.integers(0, 3)) == 0):
        big_ = 10 ** 9
        for _n, d in case["graph"]["nodes"] + [[None, d] for _u, _v, d in case["graph"]["edges"]]:
            if "flow" in d:
                d["flow"] = int(d["flow"]) * big_
        if "solution_weights_superset" in kw:
            kw["solution_weights_superset"] = [int(w) * big_ for w in kw["solution_weights_superset"]]
        case["meta"]["planted"] = [[r, int(w) * big_] for r, w in case["meta"]["planted"]]
        case["meta"]["large_values"] = True
    # perturbed data: one weighted element is zeroed (or shifted) after planting, so the instance is usually no longer
    # decomposable. Nothing is claimed about solvability; but whatever is reported solved must still explain every value.
    if draw(st.integers(0, 5)) == 0:
        items = [d for _n, d in case["graph"]["nodes"] if "flow" in d] + [d for _u, _v, d in case["graph"]["edges"] if "flow" in d]
        if items:
            d = items[draw(st.integers(0, len(items) - 1))]
            how = draw(st.sampled_from(["zero", "zero", "plus", "minus"]))
            d["flow"] = type(d["flow"])(0) if how == "zero" else max(type(d["flow"])(0), d["flow"] + (1 if how == "plus" else -1))
            case["meta"]["perturbed"] = how
    return case


def strategy(tier):
    return strategy_(tier)


def superposition(routes, weights, node_mode):
    acc = Counter()
    for r, w in zip(routes, weights):
        if node_mode:
            for v in r:
                acc[v] += w
        else:
            for e in zip(r[:-1], r[1:]):
                acc[e] += w
    return acc


def run_case(case, tier="quick"):
    try:
        cls = case["cls"]
        kw = case.get("kw", {})
        G = graph_from_json(case["graph"])
        if cls not in FD:
            return invalid_config("class")
    except Exception as e:
        return invalid_config(f"malformed case {e!r}")
    node_mode = kw.get("flow_attr_origin", "edge") == "node"
    wt = kw.get("weight_type", "float" if cls != "MinFlowDecompCycles" else "int")
    route = (case.get("meta") or {}).get("route", "default")
    labels = {cls, f"route:{route}", f"wt:{wt}", "node" if node_mode else "edge"}
    if (case.get("meta") or {}).get("int_data_float_type"):
        labels.add("int_data_float_type")
    if (case.get("meta") or {}).get("fractional_data_int_type"):
        labels.add("fractional_data_int_type")
    if (case.get("meta") or {}).get("perturbed"):
        labels.add("perturbed_data")
    if (case.get("meta") or {}).get("large_values"):
        labels.add("large_values")
    try:
        r = run_model(case, tier)
    except Exception as e:
        return invalid_config(f"harness could not build the call: {e!r}")
    if r.ctor_error or r.solve_error:
        c = r.ctor_error or r.solve_error
        return inconclusive(f"crash:{c.exc_type}@{c.site}", labels)
    if not r.solved:
        if timed_out(r):
            return inconclusive("time_limit", labels)
        labels.add("unsolved")
        return ok(labels, False)
    if r.sol_error:
        return inconclusive(f"crash:{r.sol_error.exc_type}@{r.sol_error.site}", labels)
    sol = r.solution
    key = ROUTE_KEY[cls]
    routes, weights = sol.get(key), sol.get("weights")
    if routes is None or weights is None or len(routes) != len(weights):
        return violation("solution_shape", f"routes={routes!r} weights={weights!r}"[:300], labels)
    # which solution route was actually taken (read from the model)
    taken = "milp"
    m = r.model
    sub = getattr(m, "fd_model", m)
    if getattr(sub, "external_solution_paths", None) is not None:
        taken = "greedy"
    if getattr(sub, "solution_weights_superset", None) is not None or (getattr(sub, "optimization_options", None) or {}).get("given_weights") is not None:
        taken = "given_weights"
    labels.add(f"taken:{taken}")
    if (case.get("meta") or {}).get("large_values") and taken != "greedy":
        # values of 10^9 are exact in the pure-Python parts (validation, greedy peeling) but beyond what a MILP solver with
        # absolute tolerances resolves; the solver is part of the trusted base, so nothing is concluded on that route
        return inconclusive("large values on the MILP route", labels)
    starts, ends = kw.get("additional_starts", []), kw.get("additional_ends", [])
    pairs = [(rt, w) for rt, w in zip(routes, weights) if rt]
    for rt, w in pairs:
        bad = check_route(G, rt, starts, ends, simple=cls not in CYC_CLASSES)
        if bad:
            return violation("route:" + bad[0], bad[1], labels)
    # weight type
    want = int if wt == "int" else float
    for w in weights:
        if type(w) is not want:
            return violation("weight_type", f"requested {wt} but got {w!r} ({type(w).__name__}) in {weights}", labels)
    f = flow_of(case, G)
    ign = kw.get("elements_to_ignore", [])
    ignored = set(ign) if node_mode else {tuple(e) for e in ign}
    acc = superposition([p for p, _ in pairs], [w for _, w in pairs], node_mode)
    scale = max([abs(v) for v in f.values()] + [1])
    for el, fe in f.items():
        if el in ignored:
            continue
        got = acc.get(el, 0)
        if wt == "int":
            bad = got != fe
        else:
            bad = abs(got - fe) > TOL * (1 + scale)
        if bad:
            # F19 (known): a route consisting of one node (a node that may both start and end a route) is dropped
            # by the documented "0 or 1 nodes" filter; in node mode its flow is then unexplained.
            single = node_mode and (G.in_degree(el) == 0 or el in starts) and (G.out_degree(el) == 0 or el in ends) and got < fe
            return violation(
                "flow_mismatch" if not single else "flow_mismatch_single_node_route",
                f"{'node' if node_mode else 'edge'} {el}: input flow {fe}, sum of weight*traversals {got}; routes={routes} weights={weights}",
                labels,
                facts={"taken": taken, "single_node_route": bool(single)},
            )
    labels.add("solved")
    distinct_w = len({round(float(w), 9) for _, w in pairs}) >= 2
    multi = any(max(Counter(zip(rt[:-1], rt[1:])).values(), default=0) >= 2 for rt, _ in pairs)
    if multi:
        labels.add("multiplicity>=2")
    if ignored:
        labels.add("ignored")
    return ok(labels, bool((len(pairs) >= 2 and distinct_w) or multi or ignored or node_mode))
