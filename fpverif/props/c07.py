"""C07 - k-Least-Absolute-Errors returns a true optimum with a consistent objective."""
import itertools
from collections import Counter

import networkx as nx
from hypothesis import strategies as st

from .. import gen
from ..common import TOL, Crash, graph_from_json, guarded, inconclusive, invalid_config, ok, violation
from ..inexact import Instance
from ..models import CYC_CLASSES, ConstraintSpec, run_model, solver_artifact, timed_out
from ..oracle import bf
from ..oracle.routes import check_route

ID = "C07"
LEVEL = "exploration"
TECHNIQUE = "property-based testing (Hypothesis): generated weighted DAGs/digraphs; recomputation of errors/objective, exhaustive k-route optimum with LP/MILP over weights for fixed routes (differential oracle)"
LEVEL_TEXT = (
    "Generated-input exploration of kLeastAbsErrors / kLeastAbsErrorsCycles: (consistency) number of routes, per-edge errors, "
    "get_objective_value() and the solver objective are recomputed from the returned routes and weights, is_valid_solution() must accept; "
    "(optimality, DAG) exact minimum over all sets of <= k source-sink paths with optimal weights of the requested type on instances with "
    "<= 12 paths; (optimality, cyclic) no-better-witness over all walk vectors with multiplicity <= 3/5 and over the planted solution - an "
    "alarm always exhibits the better solution."
)
LEVEL_NOTE = "Trusted: HiGHS as LP/MILP engine on fixed-route sub-problems (weights and errors only), networkx, CPython, Hypothesis. Cyclic optimality one-sided above the multiplicity bound."
RULE = (
    "case = LAE model construction: planted routes + integer noise (or exact), k in k0-1..k0+2 (cyclic: <= 3), int/float weights, edge/node "
    "origin, ignored elements, error scaling in {0,.25,.5,1}, additional starts/ends, constraints from planted routes. "
    "non-trivial = solved AND (optimum > 0 or scaling/ignore present or k >= 2 with >= 2 distinct returned routes); distinct = case hash."
)
ASSUMPTIONS = ["weights non-negative, not all zero; float data dyadic"]
BUDGET = {"quick": {"examples": 1000, "deadline_s": 90}, "thorough": {"examples": 20000, "deadline_s": 900}}
CLASSES = ["kLeastAbsErrors", "kLeastAbsErrorsCycles"]


def strategy(tier):
    big = tier == "thorough"
    return gen.model_cases(classes=CLASSES, max_nodes=6 if big else 5, p_opts=0, p_constr=6, p_ignore=4, p_se=4, p_node=4, k_slack=1)


def constraint_pred(inst, fam_mults, constraints, coverage, cyc, spec=None):
    """predicate over index tuples into fam_mults (edge-level multiplicity vectors): every constraint is contained, to the
    requested count- or length-coverage, in ONE chosen route.  `spec` (models.ConstraintSpec) carries lengths if any."""
    if not constraints:
        return None
    conv = (lambda x: inst.ne[x]) if inst.node_mode else (lambda x: tuple(x))
    cons = [[conv(x) for x in c] for c in constraints]
    if cyc:
        cons = [list(dict.fromkeys(c)) for c in cons]
    if spec is not None and spec.lengths is not None:
        lens = {conv(x): l for x, l in spec.lengths.items()}
    else:
        lens = {}

    def pred(sub):
        for c in cons:
            need = sum(lens.get(e, 1) for e in c) * coverage
            if not any(sum(lens.get(e, 1) for e in c if fam_mults[i].get(e, 0) > 0) >= need - 1e-9 for i in sub):
                return False
        return True

    return pred


def run_case(case, tier="quick"):
    try:
        cls = case["cls"]
        if cls not in CLASSES:
            return invalid_config("class")
        kw = case.get("kw", {})
        G = graph_from_json(case["graph"])
        declared = {n for n, _d in case["graph"].get("nodes", [])}
        if any(u not in declared or v not in declared for u, v, _d in case["graph"].get("edges", [])):
            return invalid_config("edge endpoint missing from node list")
        cyc = cls in CYC_CLASSES
        if not cyc and not nx.is_directed_acyclic_graph(G):
            return invalid_config("cyclic graph for the DAG model")
        inst = Instance(case, G)
        k = kw.get("k")
        wt = kw.get("weight_type", "float")
        if not isinstance(k, int) or k < 1:
            return invalid_config("k")
        if any(v not in G for v in inst.starts + inst.ends):
            return invalid_config("unknown start/end")
        if not inst.node_mode and (G.number_of_edges() == 0 or any(G.degree(v) == 0 for v in G) or any("flow" not in d for _u, _v, d in G.edges(data=True) )):
            return invalid_config("edge mode needs weighted edges and no isolated nodes")
        if not inst.f_req or any(v < 0 for v in inst.f.values()) or not any(v > 0 for v in inst.f_req.values()):
            return invalid_config("weights must be non-negative and not all zero")
        if wt == "int" and any(float(v) != int(v) for v in inst.f.values()):
            return invalid_config("fractional data with int type")
        if any(not (0 <= s <= 1) for s in inst.scale.values()):
            return invalid_config("scale")
        spec = ConstraintSpec(case, G)
        constraints = kw.get("subset_constraints" if cyc else "subpath_constraints", [])
        coverage = spec.coverage
    except Exception as e:
        return invalid_config(f"malformed case {e!r}")
    labels = {cls, f"wt:{wt}", "node" if inst.node_mode else "edge"}
    if spec.by_length:
        labels.add("length_coverage")
    for f_ in ("elements_to_ignore", "error_scaling", "additional_starts", "additional_ends"):
        if kw.get(f_):
            labels.add("kw:" + f_)
    if constraints:
        labels.add("kw:constraints")
    facts = {"has_scaling": bool(inst.scale), "node_mode": inst.node_mode, "cyclic": cyc, "wt": wt}
    single_possible = any((G.in_degree(v) == 0 or v in inst.starts) and (G.out_degree(v) == 0 or v in inst.ends) for v in G)
    try:
        r = run_model(case, tier)
    except Exception as e:
        return invalid_config(f"harness could not build the call: {e!r}")
    if r.ctor_error or r.solve_error:
        c = r.ctor_error or r.solve_error
        return inconclusive(f"crash:{c.exc_type}@{c.site}", labels)  # owned by C19 (converse)
    # reference optimum --------------------------------------------------------------------------
    meta = case.get("meta") or {}
    ref, ref_desc, exact = None, None, False

    def best_of(sub):
        b_, _s, _t, complete_ = bf.best_over_route_sets("lae", sub, k, inst.f_req, inst.scale, wt,
                                                        constraint_pred(inst, sub, constraints, coverage, cyc, spec), max_sets=3000)
        return b_, complete_

    if not cyc:
        fam = inst.dag_paths(limit=12)
        if fam is not None:
            mults, paths = fam
            pred = constraint_pred(inst, mults, constraints, coverage, cyc, spec)
            best, bset, tried, complete = bf.best_over_route_sets("lae", mults, k, inst.f_req, inst.scale, wt, pred)
            if complete:
                ref, exact = best, True
                ref_desc = [paths[i] for i in bset] if bset is not None else None
    else:
        B = 3 if tier == "quick" else 5
        vecs, complete_fam = inst.walk_family(B, limit=40)
        if len(vecs) ** min(k, 2) <= 1600 or k == 1:
            pred = constraint_pred(inst, vecs, constraints, coverage, cyc, spec)
            best, bset, tried, complete = bf.best_over_route_sets("lae", vecs, min(k, 2 if len(vecs) > 12 else k), inst.f_req, inst.scale, wt, pred, max_sets=1600)
            ref = best
            ref_desc = [dict(vecs[i]) for i in bset] if bset is not None else None
    # planted witness
    planted = meta.get("planted")
    if planted and len(planted) <= k:
        try:
            pm = [inst.mult_of(p) for p, _w in planted]
            ok_pl = all(check_route(G, list(p), inst.starts, inst.ends, simple=not cyc) is None for p, _w in planted)
            pred = constraint_pred(inst, pm, constraints, coverage, cyc, spec)
            if ok_pl and (pred is None or pred(tuple(range(len(pm))))):
                st_, obj, _ = bf.fixed_routes("lae", pm, inst.f_req, inst.scale, wt)
                if st_ == "optimal" and (ref is None or obj < ref - 1e-9):
                    ref, ref_desc = obj, [p for p, _w in planted]
        except Exception:
            pass
    if not r.solved:
        if timed_out(r):
            return inconclusive("time_limit", labels)
        if ref is not None and solver_artifact(case, tier, r):
            return inconclusive("solver artefact: solved only with HiGHS presolve off", labels)
        if ref is not None:
            if cyc:
                ceg = inst.cap_explains_gap(r.model, ref_desc, best_of, float("inf"), 0.0)
                facts["cap_explains_gap"] = "undecided" if ceg is None else ceg
            return violation("unsolved", f"{cls}(k={k}) not solved (status {r.status}) although a solution with objective {ref} exists: {ref_desc}", labels, facts=facts)
        labels.add("unsolved")
        return ok(labels, False, facts)
    if r.sol_error:
        return violation("get_solution_crash", str(r.sol_error), labels, site=r.sol_error.site, facts=facts)
    sol = r.solution
    routes, weights = sol.get("walks" if cyc else "paths"), sol.get("weights")
    if routes is None or weights is None or len(routes) != len(weights):
        return violation("solution_shape", f"{sol!r}"[:300], labels, facts=facts)
    for rt in routes:
        bad = check_route(G, rt, inst.starts, inst.ends, simple=not cyc)
        if bad:
            return violation("route:" + bad[0], bad[1], labels, facts=facts)
    if len(routes) > k or (not inst.starts and not inst.ends and len(routes) != k):
        single = any(G.in_degree(v) == 0 and G.out_degree(v) == 0 for v in G)
        return violation("route_count", f"k={k} but {len(routes)} routes returned", labels, facts=dict(facts, single_node_route=single))
    want = int if wt == "int" else float
    if any(type(w) is not want for w in weights) or any(w < -TOL for w in weights):
        return violation("weights", f"{weights!r} (requested {wt})", labels, facts=facts)
    scale_ = max(list(inst.f_req.values()) + [1])
    tol = TOL * (1 + scale_) * max(1, len(inst.f_req))
    obj_re, acc = inst.lae_objective(routes, weights)
    # per-edge errors (keys are edges of the internal graph; compare in edge mode)
    ee = sol.get("edge_errors")
    if ee is None:
        return violation("solution_shape", "no 'edge_errors' in the solution", labels, facts=facts)
    if not inst.node_mode:
        for e, fe in inst.f_req.items():
            if e not in ee:
                return violation("edge_error_missing", f"no error reported for non-ignored edge {e}", labels, facts=facts)
            if abs(ee[e] - abs(fe - acc.get(e, 0))) > tol:
                return violation("edge_error_wrong", f"edge {e}: reported error {ee[e]}, recomputed |{fe} - {acc.get(e, 0)}|", labels, facts=facts)
    # objective consistency
    try:
        solver_obj = guarded(r.model.solver.get_objective_value)
        valid = guarded(r.model.is_valid_solution)
    except Crash as c:
        return violation("consistency_crash", f"{c}", labels, site=c.site, facts=facts)
    if abs(solver_obj - obj_re) > tol:
        dropped = inst.node_mode and single_possible and len(routes) < k
        return violation("solver_objective_mismatch", f"solver objective {solver_obj} but the returned routes/weights give {obj_re}", labels, facts=dict(facts, single_node_route=dropped))
    if abs(r.objective - obj_re) > tol:
        return violation("reported_objective_mismatch", f"get_objective_value() = {r.objective} but the (scaled) error of the returned solution is {obj_re}", labels, facts=facts)
    if not valid:
        return violation("own_solution_rejected", "is_valid_solution() returned False for the model's own optimal solution", labels, facts=facts)
    # optimality
    if ref is not None and obj_re > ref + tol and solver_artifact(case, tier, r):
        return inconclusive("solver artefact: objective changes with HiGHS presolve off", labels)
    if ref is not None and obj_re > ref + tol:
        if cyc:
            ceg = inst.cap_explains_gap(r.model, ref_desc, best_of, obj_re, tol)
            facts["cap_explains_gap"] = "undecided" if ceg is None else ceg
        return violation("not_optimal", f"returned total error {obj_re} (routes {routes}, weights {weights}) but {ref} is achievable with {ref_desc}", labels, facts=dict(facts, reference=ref))
    if exact and ref is not None and obj_re < ref - tol:
        return inconclusive(f"oracle disagreement: returned {obj_re} below the exhaustive optimum {ref}", labels)
    labels.add("optimality:exact" if exact else ("optimality:witness" if ref is not None else "optimality:none"))
    labels.add("opt>0" if obj_re > tol else "opt=0")
    distinct = len({tuple(rt) for rt in routes}) >= 2
    nontrivial = obj_re > tol or bool(inst.scale) or bool(inst.ignored) or (k >= 2 and distinct)
    return ok(labels, nontrivial, facts)
