"""C08 - k-Minimum-Path-Error is feasible for k >= width and minimises total slack."""
from collections import Counter

import networkx as nx
from hypothesis import strategies as st

from .. import gen
from ..common import TOL, Crash, graph_from_json, guarded, inconclusive, invalid_config, ok, violation
from ..inexact import Instance
from ..models import CYC_CLASSES, ConstraintSpec, run_model, solver_artifact, timed_out
from ..oracle import bf
from ..oracle.routes import check_route
from ..oracle.width import dilworth
from .c07 import constraint_pred

ID = "C08"
LEVEL = "exploration"
TECHNIQUE = "property-based testing (Hypothesis): generated weighted DAGs/digraphs; independent width oracle for feasibility, recomputed slack inequalities, exhaustive k-route optimum with LP/MILP over weights and slacks"
LEVEL_TEXT = (
    "Generated-input exploration of kMinPathError / kMinPathErrorCycles with k in {None, width, width+1, width+2} where width is an "
    "independent Dilworth/antichain computation: the model must be solved (k=None must pick exactly the width), every non-ignored edge must "
    "satisfy scale*|f - sum w*mult| <= sum (length factor * slack)*mult recomputed from the returned routes, the objective must equal the sum "
    "of slacks, and the total slack must equal the exhaustive optimum over all sets of <= k source-sink paths (DAG, <= 12 paths) or must not "
    "be beaten by any bounded walk-vector set / the planted solution (cyclic)."
)
LEVEL_NOTE = "Trusted: HiGHS on fixed-route LP/MILP sub-problems, networkx, CPython, Hypothesis. Cyclic optimality one-sided above multiplicity 3/5."
RULE = (
    "case = MPE model construction on planted routes + noise: k relative to the reference width, int/float weights, edge/node origin, ignored "
    "elements, error scaling, starts/ends, path_length_ranges/factors (DAG, int weights). non-trivial = solved AND (optimum > 0, or a walk "
    "re-traverses an edge, or length factors in use, or k=None); distinct = case hash."
)
ASSUMPTIONS = ["weights non-negative, not all zero; every edge on a source-sink route; float data dyadic"]
BUDGET = {"quick": {"examples": 1300, "deadline_s": 100}, "thorough": {"examples": 20000, "deadline_s": 900}}
CLASSES = ["kMinPathError", "kMinPathErrorCycles"]


def ref_width(inst):
    required = [e for e in inst.f_req.keys()]
    return dilworth(inst.H, required, inst.hstarts, inst.hends)


@st.composite
def strategy_(draw, tier):
    big = tier == "thorough"
    case = draw(gen.model_cases(classes=CLASSES, max_nodes=6 if big else 5, p_opts=0, p_constr=7, p_ignore=4, p_se=4, p_node=4))
    G = graph_from_json(case["graph"])
    try:
        inst = Instance(case, G)
        w = ref_width(inst)
    except Exception:
        w = None
    kmode = draw(st.sampled_from(["w", "w", "w+1", "none", "w+2", "w"]))
    if w is not None and w >= 1:
        case["kw"]["k"] = {"w": w, "w+1": w + 1, "w+2": w + 2, "none": None}[kmode]
        if case["cls"] in CYC_CLASSES and case["kw"]["k"] is not None:
            case["kw"]["k"] = min(case["kw"]["k"], max(w, 3))
    if case["cls"] == "kMinPathError" and case["kw"].get("weight_type") == "int" and draw(st.integers(0, 3)) == 0:
        cut = draw(st.integers(2, 5))
        case["kw"]["path_length_ranges"] = [[0, cut], [cut + 1, 50]]
        case["kw"]["path_length_factors"] = draw(st.sampled_from([[1.0, 0.5], [0.5, 1.0], [1.0, 2.0], [2.0, 1.0]]))
    return case


def strategy(tier):
    return strategy_(tier)


def run_case(case, tier="quick"):
    try:
        cls = case["cls"]
        if cls not in CLASSES:
            return invalid_config("class")
        kw = case.get("kw", {})
        G = graph_from_json(case["graph"])
        declared = {n for n, _d in case["graph"].get("nodes", [])}
        if any(u not in declared or v not in declared for u, v, _d in case["graph"].get("edges", [])):
            return invalid_config("edge endpoint missing from node list")
        cyc = cls in CYC_CLASSES
        if not cyc and not nx.is_directed_acyclic_graph(G):
            return invalid_config("cyclic graph for the DAG model")
        inst = Instance(case, G)
        k = kw.get("k")
        wt = kw.get("weight_type", "float")
        if k is not None and (not isinstance(k, int) or k < 1):
            return invalid_config("k")
        if any(v not in G for v in inst.starts + inst.ends):
            return invalid_config("unknown start/end")
        if not inst.node_mode and (G.number_of_edges() == 0 or any(G.degree(v) == 0 for v in G) or any("flow" not in d for _u, _v, d in G.edges(data=True))):
            return invalid_config("edge mode needs weighted edges and no isolated nodes")
        if not inst.f_req or any(v < 0 for v in inst.f.values()) or not any(v > 0 for v in inst.f_req.values()):
            return invalid_config("weights must be non-negative and not all zero")
        if wt == "int" and any(float(v) != int(v) for v in inst.f.values()):
            return invalid_config("fractional data with int type")
        if any(not (0 <= s <= 1) for s in inst.scale.values()):
            return invalid_config("scale")
        ranges, factors = kw.get("path_length_ranges", []), kw.get("path_length_factors", [])
        if factors and (cyc or wt != "int" or len(ranges) != len(factors)):
            return invalid_config("length factors only for DAG + int")
        spec = ConstraintSpec(case, G)
        constraints = kw.get("subset_constraints" if cyc else "subpath_constraints", [])
        coverage = spec.coverage
        from ..oracle import walkauto as wa
        from ..oracle.routes import augmented

        H0, S0, T0 = augmented(inst.H, inst.hstarts, inst.hends)
        if any(not wa.exists_walk_using(H0, S0, T0, e) for e in inst.H.edges()):
            return invalid_config("edge on no source-sink route")
        w = ref_width(inst)
        if w is None:
            return invalid_config("too many items for the width oracle")
        if w == 0:
            return invalid_config("nothing to cover")
    except Exception as e:
        return invalid_config(f"malformed case {e!r}")
    labels = {cls, f"wt:{wt}", "node" if inst.node_mode else "edge", "k:none" if k is None else f"k-w:{min(k - w, 3) if k >= w else 'below'}"}
    for f_ in ("elements_to_ignore", "error_scaling", "additional_starts", "additional_ends", "path_length_factors"):
        if kw.get(f_):
            labels.add("kw:" + f_)
    if constraints:
        labels.add("kw:constraints")
    facts = {"width": w, "node_mode": inst.node_mode, "cyclic": cyc, "wt": wt}
    try:
        r = run_model(case, tier)
    except Exception as e:
        return invalid_config(f"harness could not build the call: {e!r}")
    if r.ctor_error or r.solve_error:
        c = r.ctor_error or r.solve_error
        return inconclusive(f"crash:{c.exc_type}@{c.site}", labels)  # owned by C19 (converse)
    keff = k
    if k is None:
        keff = getattr(r.model, "k", None)
        if keff != w:
            return violation("k_none_not_width", f"k=None picked k={keff}, the covering number is {w}", labels, facts=facts)
    # reference optimum
    meta = case.get("meta") or {}
    ref, ref_desc, exact = None, None, False

    def best_of(sub):
        b_, _s, _t, complete_ = bf.best_over_route_sets("mpe", sub, keff, inst.f_req, inst.scale, wt,
                                                        constraint_pred(inst, sub, constraints, coverage, cyc, spec), max_sets=3000)
        return b_, complete_


    def factors_of_family(mults):
        if not factors:
            return None
        return lambda i: inst.route_len_factor(mults[i], ranges, factors)

    if not cyc:
        fam = inst.dag_paths(limit=12)
        if fam is not None:
            mults, paths = fam
            keep = [i for i, m in enumerate(mults) if sum(m.values()) > 0 and (not factors or inst.route_len_factor(m, ranges, factors) is not None)]
            mults = [mults[i] for i in keep]
            paths = [paths[i] for i in keep]
            pred = constraint_pred(inst, mults, constraints, coverage, cyc, spec)
            best, bset, tried, complete = bf.best_over_route_sets("mpe", mults, keff, inst.f_req, inst.scale, wt, pred, factors_of=factors_of_family(mults))
            if complete:
                ref, exact = best, True
                ref_desc = [paths[i] for i in bset] if bset is not None else None
    else:
        B = 3 if tier == "quick" else 5
        vecs, _complete_fam = inst.walk_family(B, limit=40)
        vecs = [v for v in vecs if sum(v.values()) > 0]
        if len(vecs) ** min(keff, 2) <= 1600 or keff == 1:
            pred = constraint_pred(inst, vecs, constraints, coverage, cyc, spec)
            best, bset, tried, complete = bf.best_over_route_sets("mpe", vecs, min(keff, 2 if len(vecs) > 12 else keff), inst.f_req, inst.scale, wt, pred, max_sets=1600)
            ref = best
            ref_desc = [dict(vecs[i]) for i in bset] if bset is not None else None
    planted = meta.get("planted")
    if planted and len(planted) <= keff and not factors:
        try:
            pm = [inst.mult_of(p) for p, _w in planted]
            ok_pl = all(check_route(G, list(p), inst.starts, inst.ends, simple=not cyc) is None for p, _w in planted)
            pred = constraint_pred(inst, pm, constraints, coverage, cyc, spec)
            if ok_pl and (pred is None or pred(tuple(range(len(pm))))):
                st_, obj, _ = bf.fixed_routes("mpe", pm, inst.f_req, inst.scale, wt)
                if st_ == "optimal" and (ref is None or obj < ref - 1e-9):
                    ref, ref_desc = obj, [p for p, _w in planted]
        except Exception:
            pass
    if not r.solved:
        if timed_out(r):
            return inconclusive("time_limit", labels)
        if keff >= w and not constraints and not factors:
            if solver_artifact(case, tier, r):
                return inconclusive("solver artefact: solved only with HiGHS presolve off", labels)
            # F9 (known): at k = width a covering walk must re-traverse an edge more often than the largest weight in reach
            needs = False
            if cyc:
                capv = max(inst.f.values())
                vecs_small, _c = inst.walk_family(int(capv), limit=200)
                vecs_small = [v for v in vecs_small if sum(v.values()) > 0]
                b2, _s, _t, comp2 = bf.best_over_route_sets("mpe", vecs_small, keff, inst.f_req, inst.scale, wt, None, stop_below=float("inf"), max_sets=3000)
                needs = comp2 and b2 is None
            return violation("unsolved_at_k_geq_width", f"{cls}(k={keff}) not solved (status {r.status}) although k >= covering number {w}", labels, facts=dict(facts, needs_retraversal=needs))
        if ref is not None:
            if solver_artifact(case, tier, r):
                return inconclusive("solver artefact: solved only with HiGHS presolve off", labels)
            if cyc:
                # does any solution exist within the documented repetition caps?  (obj_re = +inf: any capped solution refutes)
                ceg = inst.cap_explains_gap(r.model, ref_desc, best_of, float("inf"), 0.0)
                facts["cap_explains_gap"] = "undecided" if ceg is None else ceg
            return violation("unsolved", f"{cls}(k={keff}) not solved although a solution with total slack {ref} exists: {ref_desc}", labels, facts=facts)
        labels.add("unsolved")
        return ok(labels, False, facts)
    if r.sol_error:
        return violation("get_solution_crash", str(r.sol_error), labels, site=r.sol_error.site, facts=facts)
    sol = r.solution
    routes, weights, slacks = sol.get("walks" if cyc else "paths"), sol.get("weights"), sol.get("slacks")
    if routes is None or weights is None or slacks is None or not (len(routes) == len(weights) == len(slacks)):
        return violation("solution_shape", f"{sol!r}"[:300], labels, facts=facts)
    for rt in routes:
        bad = check_route(G, rt, inst.starts, inst.ends, simple=not cyc)
        if bad:
            return violation("route:" + bad[0], bad[1], labels, facts=facts)
    if len(routes) > keff:
        return violation("route_count", f"k={keff} but {len(routes)} routes", labels, facts=facts)
    want = int if wt == "int" else float
    if any(type(x) is not want for x in list(weights) + list(slacks)) or any(x < -TOL for x in list(weights) + list(slacks)):
        return violation("weights", f"weights {weights!r} slacks {slacks!r} (requested {wt})", labels, facts=facts)
    scale_ = max(list(inst.f_req.values()) + [1])
    tol = TOL * (1 + scale_) * max(1, len(inst.f_req))
    mults = [inst.mult_of(rt) for rt in routes]
    facs = [inst.route_len_factor(m, ranges, factors) for m in mults]
    if any(f_ is None for f_ in facs):
        return violation("length_outside_ranges", f"a returned path has a length in no given range: {routes}", labels, facts=facts)
    if factors and "scaled_slacks" in sol:
        for s_, sc_, f_ in zip(slacks, sol["scaled_slacks"], facs):
            if abs(sc_ - s_ * f_) > tol:
                return violation("scaled_slack_wrong", f"scaled slack {sc_} != slack {s_} * factor {f_}", labels, facts=facts)
    for e, fe in inst.f_req.items():
        tot = sum(wi * m.get(e, 0) for wi, m in zip(weights, mults))
        budget = sum(f_ * s_ * m.get(e, 0) for f_, s_, m in zip(facs, slacks, mults))
        if inst.scale.get(e, 1) * abs(fe - tot) > budget + tol:
            single_possible = any((G.in_degree(v) == 0 or v in inst.starts) and (G.out_degree(v) == 0 or v in inst.ends) for v in G)
            facts["single_node_route"] = inst.node_mode and single_possible and len(routes) < keff
            return violation("slack_inequality", f"edge {e}: scale*|{fe}-{tot}| = {inst.scale.get(e, 1) * abs(fe - tot)} > slack budget {budget}; routes {routes} weights {weights} slacks {slacks}", labels, facts=facts)
    obj_re = sum(slacks)
    if abs(r.objective - obj_re) > tol:
        return violation("reported_objective_mismatch", f"get_objective_value() = {r.objective}, sum of slacks = {obj_re}", labels, facts=facts)
    try:
        valid = guarded(r.model.is_valid_solution)
    except Crash as c:
        valid = True  # the own validity check raising on single-node routes etc. is not part of C08's statement
    if ref is not None and obj_re > ref + tol:
        if solver_artifact(case, tier, r):
            return inconclusive("solver artefact: objective changes with HiGHS presolve off", labels)
        if cyc:
            ceg = inst.cap_explains_gap(r.model, ref_desc, best_of, obj_re, tol)
            facts["cap_explains_gap"] = "undecided" if ceg is None else ceg
        return violation("not_optimal", f"returned total slack {obj_re} (routes {routes}, weights {weights}, slacks {slacks}) but {ref} is achievable with {ref_desc}", labels, facts=dict(facts, reference=ref))
    if exact and ref is not None and obj_re < ref - tol:
        return inconclusive(f"oracle disagreement: returned {obj_re} below the exhaustive optimum {ref}", labels)
    labels.add("optimality:exact" if exact else ("optimality:witness" if ref is not None else "optimality:none"))
    labels.add("opt>0" if obj_re > tol else "opt=0")
    retrav = any(max(m.values(), default=0) >= 2 for m in mults)
    if retrav:
        labels.add("retraversal")
    nontrivial = obj_re > tol or retrav or bool(factors) or k is None
    return ok(labels, nontrivial, facts)
