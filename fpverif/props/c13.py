"""C13 - solved means proven optimal; inconclusive solver runs never yield an answer.  (fault enumeration)

For every generated input the fault-free run records the sequence of SolverWrapper.optimize() calls; then, for
EVERY position of that sequence and every fault kind, the run is repeated with a harness wrapper that lets HiGHS
solve that call normally (so a tempting incumbent exists) and afterwards makes get_model_status() of that solver
object report the fault (native kTimeLimit / kInterrupt, or the custom-timeout flag did_timeout=True).
"""
import copy

from hypothesis import strategies as st

from .. import gen
from ..common import Crash, graph_from_json, guarded, inconclusive, invalid_config, ok, solver_options, violation
from ..models import CYC_CLASSES, MIN_CLASSES, ROUTE_KEY, materialize_kwargs
from . import c15, c16

ID = "C13"
LEVEL = "fault_enumeration"
TECHNIQUE = "fault injection enumerated over every solver-invocation position x fault kind on Hypothesis-generated inputs; invariant over the fault history against the fault-free optimum"
LEVEL_TEXT = (
    "Fault enumeration: exhaustive over (position in the solver-invocation sequence) x {kTimeLimit, kInterrupt, custom timeout} for each "
    "generated input (generated-input search over inputs; exhaustive over fault positions).  Invariant: before a successful solve the getters "
    "raise; under a fault the model is either not solved (getters raise) or solved with exactly the fault-free optimum; a k-model whose own "
    "solve was faulted never reports solved; NumPathsOptimization only returns an inner model with optimal status."
)
LEVEL_NOTE = "The solver giving up is simulated by overriding the reported status / did_timeout after a real solve (monkeypatch from the harness, no source hook); real SIGALRM expiry and the Gurobi back end are out of reach."
RULE = (
    "case = one model input (path/walk k-models, MinFlowDecomp, MinFlowDecompCycles, MinPathCover, MinPathCoverCycles with lower-bound / "
    "greedy / guessed-weights options; MinGenSet; NumPathsOptimization in first-feasible and delta modes; MinErrorFlow with and without its "
    "second few-values stage); all (position, kind) pairs are "
    "executed inside the case. evaluations counts cases, 'fault_runs' in the label histogram counts injected runs. "
    "non-trivial = the fault-free run makes >= 2 solver invocations and some fault hits an iteration whose k is below the optimum (MinErrorFlow: the second stage exists); distinct = case hash."
)
ASSUMPTIONS = ["inputs are small enough that the fault-free run is solved to optimality within the time limit"]
BUDGET = {"quick": {"examples": 1400, "deadline_s": 90}, "thorough": {"examples": 6000, "deadline_s": 900}}
KINDS = ["kTimeLimit", "kInterrupt", "custom_timeout"]
K_CLASSES = ["kFlowDecomp", "kLeastAbsErrors", "kMinPathError", "kPathCover", "kFlowDecompCycles", "kLeastAbsErrorsCycles", "kMinPathErrorCycles", "kPathCoverCycles"]
MINS = ["MinFlowDecomp", "MinFlowDecompCycles", "MinPathCover", "MinPathCoverCycles"]


@st.composite
def strategy_(draw, tier):
    big = tier == "thorough"
    which = draw(st.sampled_from(["min", "min", "min", "k", "genset", "npo", "min", "mef"]))
    if which == "mef":
        # MinErrorFlow: one solver run, or two with few_flow_values_epsilon (the second minimises the number of values)
        c = draw(c16.strategy_(tier))
        c["kw"].pop("sparsity_lambda", None)
        if draw(st.sampled_from([True, True, False])):
            c["kw"]["few_flow_values_epsilon"] = draw(st.sampled_from([0.5, 0.25, 1]))
        return {"cls": "MinErrorFlow", "model": c}
    if which == "genset":
        for _ in range(5):
            c = draw(c15.strategy_(tier))
            if c.get("kind") == "genset":
                c.pop("partition_constraints", None)
                return {"cls": "MinGenSet", "genset": c}
        return {"cls": "MinGenSet", "genset": {"kind": "genset", "numbers": [2, 4, 6, 7, 9], "total": 13, "weight_type": "int", "max_multiplicity": 1}}
    if which == "npo":
        inner = draw(st.sampled_from(["kMinPathError", "kLeastAbsErrors"]))
        case = draw(gen.model_cases(classes=[inner], max_nodes=5, p_opts=0, p_constr=0, p_ignore=6, p_se=0, p_node=0))
        case["kw"].pop("k", None)
        case["npo"] = {"mode": draw(st.sampled_from(["first", "delta_abs", "delta_rel"])), "max_num_paths": draw(st.integers(3, 5)), "min_num_paths": draw(st.sampled_from([1, 1, 2]))}
        return {"cls": "NumPathsOptimization", "inner": case}
    classes = (MINS + ["MinFlowDecomp", "MinFlowDecomp", "MinFlowDecompCycles"]) if which == "min" else K_CLASSES
    case = draw(gen.model_cases(classes=classes, max_nodes=6 if big else 5, noise=True, p_opts=0, p_constr=6, p_ignore=6, p_se=8, p_node=6))
    opts = {}
    if case["cls"] == "MinFlowDecomp":
        m = draw(st.sampled_from(["nogreedy", "nogreedy", "mgs", "guess", "default"]))
        if m in ("nogreedy", "mgs", "guess"):
            opts["optimize_with_greedy"] = False
        if m == "mgs":
            opts["use_min_gen_set_lowerbound"] = True
        if m == "guess":
            opts["optimize_with_guessed_weights"] = True
    elif case["cls"] == "MinFlowDecompCycles":
        m = draw(st.sampled_from(["default", "mgs", "guess"]))
        if m == "mgs":
            opts["use_min_gen_set_lowerbound"] = True
        if m == "guess":
            opts["optimize_with_guessed_weights"] = True
    elif case["cls"] == "kFlowDecomp" and draw(st.booleans()):
        opts["optimize_with_greedy"] = False
    if opts:
        case["kw"]["optimization_options"] = opts
    return {"cls": case["cls"], "model": case}


def strategy(tier):
    return strategy_(tier)


# ---------------------------------------------------------------------------------------------- fault harness
class Injector:
    """Counts SolverWrapper.optimize() calls and injects one fault after the real solve of call `target`."""

    def __init__(self, target=None, kind=None):
        self.target, self.kind = target, kind
        self.count = 0
        self.log = []

    def __enter__(self):
        import flowpaths.utils.solverwrapper as swm

        self.SW = swm.SolverWrapper
        self.orig_opt = self.SW.optimize
        self.orig_status = self.SW.get_model_status
        inj = self

        def optimize(sw):
            idx = inj.count
            inj.count += 1
            inj.orig_opt(sw)
            inj.log.append(inj.orig_status(sw))
            if idx == inj.target:
                if inj.kind == "custom_timeout":
                    sw.did_timeout = True
                else:
                    sw._fpverif_fault = inj.kind

        def get_model_status(sw, raw=False):
            f = getattr(sw, "_fpverif_fault", None)
            if f is not None:
                return f
            return inj.orig_status(sw, raw)

        self.SW.optimize = optimize
        self.SW.get_model_status = get_model_status
        return self

    def __exit__(self, *a):
        self.SW.optimize = self.orig_opt
        self.SW.get_model_status = self.orig_status


def _construct(case, tier):
    """-> (model, measure) where measure(model) gives the comparable optimum of a solved model."""
    import flowpaths as fp

    cls = case["cls"]
    if cls == "MinGenSet":
        g = case["genset"]
        kw = {"numbers": list(g["numbers"]), "total": g["total"], "weight_type": int if g.get("weight_type") == "int" else float,
              "max_multiplicity": g.get("max_multiplicity", 1), "lowerbound": g.get("lowerbound", 1), "solver_options": solver_options(tier)}
        for f in ("remove_complement_values", "remove_sums_of_two"):
            if f in g:
                kw[f] = g[f]
        return fp.MinGenSet(**kw), (lambda m: len(m.get_solution()))
    if cls == "NumPathsOptimization":
        inner = case["inner"]
        kw = materialize_kwargs(inner, tier)
        n = inner["npo"]
        G = graph_from_json(inner["graph"])
        stop = {"first": {"stop_on_first_feasible": True}, "delta_abs": {"stop_on_delta_abs": 1}, "delta_rel": {"stop_on_delta_rel": 0.25}}[n["mode"]]
        model = fp.NumPathsOptimization(model_type=getattr(fp, inner["cls"]), min_num_paths=n["min_num_paths"], max_num_paths=n["max_num_paths"], G=G, **stop, **kw)
        return model, (lambda m: (m.model.k, round(float(m.get_objective_value()), 6)))
    mc = case["model"]
    kw = materialize_kwargs(mc, tier)
    G = graph_from_json(mc["graph"])
    model = getattr(fp, mc["cls"])(G, **kw)
    if mc["cls"] == "MinErrorFlow":
        return model, (lambda m: round(float(m.get_solution()["error"]), 6))
    if mc["cls"] in MIN_CLASSES:
        key = ROUTE_KEY[mc["cls"]]
        return model, (lambda m: len(m.get_solution()[key]))
    return model, (lambda m: round(float(m.get_objective_value()), 6))


def _getters_raise(model):
    """Both getters must raise when the model is not solved."""
    bad = []
    for name in ("get_solution", "get_objective_value"):
        fn = getattr(model, name, None)
        if fn is None:
            continue
        try:
            val = fn()
            bad.append((name, repr(val)[:120]))
        except BaseException:
            pass
    return bad


def _is_solved(model):
    try:
        return bool(model.is_solved())
    except BaseException:
        return False


def run_case(case, tier="quick"):
    try:
        cls = case["cls"]
        if cls not in K_CLASSES + MINS + ["MinGenSet", "NumPathsOptimization", "MinErrorFlow"]:
            return invalid_config("class")
    except Exception as e:
        return invalid_config(f"malformed case {e!r}")
    labels = {cls}
    # ---- fault-free run
    try:
        with Injector() as inj0:
            model, measure = guarded(_construct, case, tier)
            pre_solved = _is_solved(model)
            pre_bad = [] if pre_solved else _getters_raise(model)
            guarded(model.solve)
            solved0 = _is_solved(model)
            obj0 = guarded(measure, model) if solved0 else None
            n_calls = inj0.count
            statuses = list(inj0.log)
    except Crash as c:
        return inconclusive(f"fault-free run crashed: {c.exc_type}@{c.site}", labels)
    except Exception as e:
        return invalid_config(f"malformed case {e!r}")
    if any(s in ("kTimeLimit",) for s in statuses):
        return inconclusive("time_limit in the fault-free run", labels)
    if pre_bad:
        return violation("getter_before_solve", f"{cls}: {pre_bad} returned data before solve()", labels)
    if pre_solved and cls not in ("kFlowDecomp",):
        return violation("solved_before_solve", f"{cls}.is_solved() is True right after construction", labels)
    if not solved0:
        bad = _getters_raise(model)
        if bad:
            return violation("getter_when_unsolved", f"{cls}: model not solved but {bad} returned data", labels)
    labels.add(f"calls:{min(n_calls, 5)}")
    fault_runs = 0
    hits_below_opt = False
    facts = {"n_calls": n_calls, "fault_free_optimum": obj0}
    for pos in range(n_calls):
        for kind in KINDS:
            fault_runs += 1
            try:
                with Injector(pos, kind) as inj:
                    m2, measure2 = guarded(_construct, case, tier)
                    guarded(m2.solve)
                    s2 = _is_solved(m2)
                    o2 = guarded(measure2, m2) if s2 else None
                    calls2 = inj.count
            except Crash as c:
                if cls == "NumPathsOptimization" and c.exc_type == "ZeroDivisionError":
                    # relative-delta stopping rule divides by a zero objective: unrelated to C13 (also crashes fault-free)
                    return inconclusive("NumPathsOptimization stop_on_delta_rel divides by a zero objective", labels)
                return violation("crash_under_fault", f"{cls}: fault {kind} at solver call {pos}/{n_calls}: {c}", labels, site=c.site, facts=dict(facts, pos=pos, kind=kind))
            where = f"fault {kind} at solver call {pos + 1} of {n_calls} (fault-free statuses {statuses})"
            if not s2:
                bad = _getters_raise(m2)
                if bad:
                    return violation("getter_after_fault", f"{cls}: not solved after {where}, but {bad} returned data", labels, facts=dict(facts, pos=pos, kind=kind))
                if statuses[pos] != "kOptimal" and solved0:
                    hits_below_opt = True
                # a second solve() on the same object, now without faults: whatever it reports as solved must be the true optimum
                # (an inconclusive run must not have been memoised as "this k is infeasible")
                if cls in MINS + ["MinGenSet"] and kind == "kTimeLimit":
                    try:
                        guarded(m2.solve)
                        s3 = _is_solved(m2)
                        o3 = guarded(measure2, m2) if s3 else None
                    except Crash as c:
                        return violation("crash_on_second_solve", f"{cls}: second solve() after {where} raised {c}", labels, site=c.site, facts=dict(facts, pos=pos, kind=kind))
                    if s3 and solved0 and o3 != obj0:
                        return violation("non_minimal_after_retry", f"{cls}: fault-free optimum {obj0}; after {where} (unsolved) a second solve() on the same object reports solved with {o3}", labels, facts=dict(facts, pos=pos, kind=kind))
                    if s3 and not solved0:
                        return violation("solved_only_after_fault", f"{cls}: unsolved without faults, but a second solve() after {where} reports solved ({o3})", labels, facts=dict(facts, pos=pos, kind=kind))
                    labels.add("second_solve")
                continue
            # solved under a fault
            if cls in K_CLASSES + ["MinErrorFlow"]:
                if calls2 >= 1:
                    return violation("k_model_solved_despite_fault", f"{cls}: is_solved() is True after {where}", labels, facts=dict(facts, pos=pos, kind=kind))
                continue
            if cls == "NumPathsOptimization":
                inner_status = None
                try:
                    inner_status = m2.model.solver.get_model_status()
                except Exception:
                    pass
                if inner_status not in ("kOptimal", 2):
                    return violation("npo_returns_unproven_model", f"returned inner model has status {inner_status} after {where}", labels, facts=dict(facts, pos=pos, kind=kind))
                continue
            if not solved0:
                return violation("solved_only_under_fault", f"{cls}: unsolved without faults but solved (value {o2}) after {where}", labels, facts=dict(facts, pos=pos, kind=kind))
            if o2 != obj0:
                return violation(
                    "non_minimal_after_fault",
                    f"{cls}: fault-free optimum {obj0}, but after {where} the search reports solved with {o2} (it skipped the inconclusive k)",
                    labels,
                    facts=dict(facts, pos=pos, kind=kind),
                )
    labels.add(f"fault_runs:{min(fault_runs // 3 * 3, 15)}")
    nontrivial = n_calls >= 2 and (hits_below_opt or cls == "MinErrorFlow")
    if hits_below_opt:
        labels.add("fault_below_optimum")
    return ok(labels, nontrivial, dict(facts, fault_runs=fault_runs))
