"""C12 - MILP building blocks encode exactly the relation they name.

(a) product helpers: for fixed admissible (x, y) both min and max of the product variable must equal x*y
    (this characterises the whole feasible set of the output); ub <= 16 is enumerated exhaustively.
(b) piecewise-constant helper: x fixed inside a range => min and max of y equal that range's constant.
(c) stateful machine over add_variables / set_objective / queue_* / optimize / get_values against a
    reference box-LP model kept in Python.
"""
import itertools

from hypothesis import strategies as st
from hypothesis.stateful import RuleBasedStateMachine, initialize, invariant, precondition, rule

from ..common import Crash, guarded, invalid_config, ok, violation

ID = "C12"
LEVEL = "exploration"
TECHNIQUE = "property-based testing (Hypothesis): exhaustive enumeration of the small product domain, min/max characterisation oracle, rule-based state machine against a reference box-LP model"
LEVEL_TEXT = (
    "(a) binary*continuous and integer*continuous helpers: every admissible (ub, x, y) with ub <= 16 on a quarter grid is enumerated "
    "exhaustively (flagged exhaustive for that sub-domain), larger / non-power-of-two ub by generation; min and max of the product "
    "must both equal x*y. (b) piecewise constant helper on generated disjoint integer ranges. (c) Hypothesis RuleBasedStateMachine "
    "issuing add_variables / set_objective / queue_fix_variable / queue_set_var_lower_bound / optimize / get_values, compared after "
    "every optimize with a reference model (column bounds read back, status, objective, values for exactly the requested keys)."
)
LEVEL_NOTE = "Trusted: HiGHS as LP/MILP engine on <= 40-variable models, CPython, Hypothesis. Preconditions as documented: lb = 0 <= y <= ub and x*y <= ub."
RULE = (
    "cases: kind=bin (ub,x in {0,1},y), kind=int (ub,x in 0..ub,y with x*y<=ub), kind=pwc (ranges, constants, x), kind=history (op list "
    "produced by the state machine). non-trivial: bin/int: ub not a power of two or x >= 2 (two bits) or y fractional; pwc: >= 2 ranges; "
    "history: contains an objective replacement and a queued bound update before an optimize. distinct = case hash."
)
ASSUMPTIONS = ["callers' usage: lb = 0, continuous factor within [0, ub], product within [0, ub]"]
BUDGET = {"quick": {"examples": 3000, "deadline_s": 80}, "thorough": {"examples": 40000, "deadline_s": 600}}
MACHINE_EXAMPLES = {"quick": 1600, "thorough": 16000}
STEP_COUNT = {"quick": 25, "thorough": 40}
EXHAUSTIVE_UB = 16


def _sw():
    import flowpaths.utils.solverwrapper as sw

    return sw.SolverWrapper(threads=1, time_limit=30)


# ------------------------------------------------------------------------------------------ exhaustive domain
def exhaustive_cases(tier):
    for ub in range(0, EXHAUSTIVE_UB + 1):
        ys = sorted({float(y) for y in (0, ub, ub / 2.0, ub / 4.0, 1, 0.25, ub - 0.25) if 0 <= y <= ub})
        for y in ys:
            for x in (0, 1):
                yield {"kind": "bin", "ub": ub, "x": x, "y": y}
        for x in range(0, ub + 1):
            for y in sorted(set(ys) | ({ub / x} if x else set())):
                if x * y <= ub + 1e-12:
                    yield {"kind": "int", "ub": ub, "x": x, "y": y}


@st.composite
def strategy_(draw, tier):
    kind = draw(st.sampled_from(["int", "int", "bin", "pwc", "pwc"]))
    if kind in ("int", "bin"):
        ub = draw(st.sampled_from([17, 20, 24, 31, 32, 33, 50, 63, 64, 65, 100, 127, 128, 1000]))
        if kind == "bin":
            x = draw(st.integers(0, 1))
            y = draw(st.integers(0, 4 * ub)) / 4.0
        else:
            x = draw(st.integers(0, ub))
            ymax = ub if x == 0 else ub / x
            y = draw(st.integers(0, int(4 * ymax))) / 4.0
        return {"kind": kind, "ub": ub, "x": x, "y": y}
    n = draw(st.integers(1, 4))
    cuts = sorted(draw(st.lists(st.integers(0, 30), min_size=2 * n, max_size=2 * n, unique=True)))
    ranges = [[cuts[2 * i], cuts[2 * i + 1]] for i in range(n)]
    consts = [draw(st.integers(0, 8)) / 2.0 for _ in range(n)]
    i = draw(st.integers(0, n - 1))
    x = draw(st.integers(ranges[i][0], ranges[i][1]))
    return {"kind": "pwc", "ranges": ranges, "constants": consts, "x": x}


def strategy(tier):
    return strategy_(tier)


def _minmax(build, target_getter):
    """Solve min and max of the target variable on two freshly built models; returns [(status,value),(status,value)]."""
    out = []
    for sense in ("minimize", "maximize"):
        s, target = build()
        s.set_objective(target + 0, sense=sense)
        s.optimize()
        st_ = s.get_model_status()
        out.append((st_, s.get_objective_value() if st_ == "kOptimal" else None))
    return out


def run_product(case):
    kind, ub, x, y = case["kind"], case["ub"], case["x"], case["y"]
    if not (0 <= y <= ub + 1e-12 and x * y <= ub + 1e-9 and x >= 0 and (kind != "bin" or x in (0, 1))):
        return invalid_config("outside documented preconditions")
    labels = {f"kind:{kind}", "ub_pow2" if ub and (ub & (ub - 1)) == 0 else "ub_not_pow2"}
    if ub <= EXHAUSTIVE_UB:
        labels.add("exhaustive_domain")

    def build():
        s = _sw()
        xv = s.add_variables([0], "x", lb=0, ub=max(ub, 1) if kind == "int" else 1, var_type="integer")
        yv = s.add_variables([0], "y", lb=0, ub=ub, var_type="continuous")
        pv = s.add_variables([0], "p", lb=0, ub=ub, var_type="continuous")
        if kind == "bin":
            s.add_binary_continuous_product_constraint(xv[0], yv[0], pv[0], lb=0, ub=ub, name="prod")
        else:
            s.add_integer_continuous_product_constraint(xv[0], yv[0], pv[0], lb=0, ub=ub, name="prod")
        s.add_constraint(xv[0] == x, name="fixx")
        s.add_constraint(yv[0] == y, name="fixy")
        return s, pv[0]

    try:
        res = guarded(_minmax, build, None)
    except Crash as c:
        return violation("crash", f"{case}: {c}", labels, site=c.site)
    want = x * y
    tol = 1e-6 * (1 + ub)
    for sense, (st_, val) in zip(("min", "max"), res):
        if st_ != "kOptimal":
            return violation("product_infeasible", f"{kind} ub={ub} x={x} y={y}: {sense} status {st_} (admissible pair must be feasible)", labels)
        if abs(val - want) > tol:
            return violation("product_wrong", f"{kind} ub={ub} x={x} y={y}: {sense} of product = {val}, expected {want}", labels)
    nontrivial = ("ub_not_pow2" in labels) or x >= 2 or (y != int(y))
    return ok(labels, nontrivial)


def run_pwc(case):
    ranges, consts, x = case["ranges"], case["constants"], case["x"]
    try:
        if len(ranges) != len(consts) or not ranges:
            return invalid_config("shape")
        flat = [v for r in ranges for v in r]
        if flat != sorted(flat) or len(set(flat)) != len(flat):
            return invalid_config("ranges must be disjoint and increasing")
        idx = [i for i, r in enumerate(ranges) if r[0] <= x <= r[1]]
        if len(idx) != 1:
            return invalid_config("x must lie in exactly one range")
    except Exception as e:
        return invalid_config(repr(e))
    want = consts[idx[0]]
    labels = {"kind:pwc", f"ranges:{len(ranges)}"}

    def build():
        s = _sw()
        xv = s.add_variables([0], "x", lb=0, ub=40, var_type="integer")
        yv = s.add_variables([0], "y", lb=min(consts), ub=max(consts), var_type="continuous")
        s.add_piecewise_constant_constraint(xv[0], yv[0], ranges=[tuple(r) for r in ranges], constants=consts, name_prefix="pw")
        s.add_constraint(xv[0] == x, name="fixx")
        return s, yv[0]

    try:
        res = guarded(_minmax, build, None)
    except Crash as c:
        return violation("crash", f"{case}: {c}", labels, site=c.site)
    for sense, (st_, val) in zip(("min", "max"), res):
        if st_ != "kOptimal":
            return violation("pwc_infeasible", f"{case}: {sense} status {st_}", labels)
        if abs(val - want) > 1e-6 * (1 + max(consts)):
            return violation("pwc_wrong", f"{case}: {sense} of y = {val}, expected constant {want}", labels)
    return ok(labels, len(ranges) >= 2)


# ------------------------------------------------------------------------------------------ histories
class Interp:
    """Applies an op list to a real SolverWrapper and to a reference box-LP model; used by the state machine and by replay."""

    def __init__(self):
        self.s = _sw()
        self.vars = []  # dicts: var, key, lb, ub, integer
        self.cost = {}
        self.offset = 0.0
        self.sense = "minimize"
        self.pending = []
        self.n_groups = 0
        self.flags = set()
        self.bad = None

    def apply(self, op):
        name = op[0]
        if name == "wrapper":
            # documented construction options; only meaningful before anything was added
            if self.vars or self.flags:
                raise IndexError("wrapper options after the first operation")
            import flowpaths.utils.solverwrapper as sw

            o = dict(op[1])
            kw = {"threads": 1, "use_also_custom_timeout": bool(o.get("custom_timeout", False)), "presolve": o.get("presolve", "choose")}
            if o.get("time_limit", 30) is not None:
                kw["time_limit"] = 30
            if kw["presolve"] not in ("choose", "on", "off"):
                raise IndexError("presolve")
            self.s = sw.SolverWrapper(**kw)
            if kw["use_also_custom_timeout"] and "time_limit" in kw:
                self.flags.add("custom_timeout_path")
        elif name == "add":
            _, n, integer, style, lbs, ubs = op
            keys = [(self.n_groups, j) for j in range(n)]
            if style == "scalar":
                lb, ub = lbs[0], ubs[0]
                lbs, ubs = [lb] * n, [ub] * n
            elif style == "dict":
                lb, ub = {k: lbs[j] for j, k in enumerate(keys)}, {k: ubs[j] for j, k in enumerate(keys)}
            else:
                lb, ub = list(lbs[:n]), list(ubs[:n])
            vs = self.s.add_variables(keys, f"g{self.n_groups}", lb=lb, ub=ub, var_type="integer" if integer else "continuous")
            for j, k in enumerate(keys):
                self.vars.append({"var": vs[k], "key": k, "lb": float(lbs[j]), "ub": float(ubs[j]), "int": integer})
            self.n_groups += 1
        elif name == "obj":
            _, coefs, const, sense = op
            if not self.vars:
                return
            terms = []
            self.cost = {}
            for i, c in coefs:
                i %= len(self.vars)
                self.cost[i] = self.cost.get(i, 0.0) + c
                terms.append(c * self.vars[i]["var"])
            if not terms:
                return
            if self.flags & {"objective_set"}:
                self.flags.add("objective_replaced")
            self.flags.add("objective_set")
            self.offset = float(const)
            self.sense = sense
            self.s.set_objective(self.s.quicksum(terms) + const, sense=sense)
        elif name == "fix":
            _, i, frac = op
            if not self.vars:
                return
            v = self.vars[i % len(self.vars)]
            val = v["lb"] + frac * (v["ub"] - v["lb"])
            if v["int"]:
                val = float(round(val))
            self.s.queue_fix_variable(v["var"], val)
            self.pending.append(("fix", i % len(self.vars), val))
            self.flags.add("queued")
        elif name == "lb":
            _, i, frac = op
            if not self.vars:
                return
            v = self.vars[i % len(self.vars)]
            val = v["lb"] + frac * (v["ub"] - v["lb"])
            if v["int"]:
                val = float(round(val))
            self.s.queue_set_var_lower_bound(v["var"], val)
            self.pending.append(("lb", i % len(self.vars), val))
            self.flags.add("queued")
        elif name == "opt":
            _, ask = op
            if not self.vars:
                return
            for kind, i, val in self.pending:
                if kind == "fix":
                    self.vars[i]["lb"] = self.vars[i]["ub"] = val
                else:
                    self.vars[i]["lb"] = val
            if self.pending:
                self.flags.add("queued_before_optimize")
            self.pending = []
            self.s.optimize()
            self.flags.add("optimized")
            self.check(ask)

    def check(self, ask):
        s = self.s
        lp = s.solver.getLp()
        lo, up = list(lp.col_lower_), list(lp.col_upper_)
        for i, v in enumerate(self.vars):
            if abs(lo[i] - v["lb"]) > 1e-9 or abs(up[i] - v["ub"]) > 1e-9:
                self.bad = ("bounds_wrong", f"column {i} {v['key']}: bounds [{lo[i]}, {up[i]}] but requested [{v['lb']}, {v['ub']}]")
                return
        feasible = all(v["lb"] <= v["ub"] + 1e-12 for v in self.vars)
        st_ = s.get_model_status()
        if not feasible:
            if st_ == "kOptimal":
                self.bad = ("status_wrong", "reference model infeasible but status kOptimal")
            return
        if st_ != "kOptimal":
            self.bad = ("status_wrong", f"reference model feasible (box) but status {st_}")
            return
        mini = self.sense in ("minimize", "min")
        want_vals = {}
        obj = self.offset
        for i, v in enumerate(self.vars):
            c = self.cost.get(i, 0.0)
            if c == 0:
                continue
            val = v["lb"] if (c > 0) == mini else v["ub"]
            want_vals[i] = val
            obj += c * val
        got_obj = s.get_objective_value()
        if abs(got_obj - obj) > 1e-6 * (1 + abs(obj)):
            self.bad = ("objective_wrong", f"objective {got_obj}, reference {obj} (sense {self.sense}, costs {self.cost}, offset {self.offset})")
            return
        idxs = sorted({i % len(self.vars) for i in ask}) or [0]
        req = {self.vars[i]["key"]: self.vars[i]["var"] for i in idxs}
        got = s.get_values(req)
        if set(got.keys()) != set(req.keys()):
            self.bad = ("get_values_keys", f"asked {sorted(req)} got {sorted(got)}")
            return
        for i in idxs:
            v = self.vars[i]
            val = got[v["key"]]
            if i in want_vals:
                if abs(val - want_vals[i]) > 1e-6:
                    self.bad = ("get_values_wrong", f"var {v['key']} = {val}, reference {want_vals[i]}")
                    return
            elif not (v["lb"] - 1e-6 <= val <= v["ub"] + 1e-6):
                self.bad = ("get_values_wrong", f"var {v['key']} = {val} outside [{v['lb']}, {v['ub']}]")
                return


def run_history(case):
    ops = case.get("ops")
    if not isinstance(ops, list) or not ops:
        return invalid_config("no ops")
    it = Interp()
    labels = {"kind:history"}
    try:
        for op in ops:
            guarded(it.apply, list(op))
            if it.bad:
                break
    except Crash as c:
        if c.exc_type in ("IndexError", "TypeError", "KeyError") and c.site is None:
            return invalid_config(f"malformed op: {c}")
        return violation("crash", f"op sequence crashed: {c}", labels, site=c.site)
    except Exception as e:
        return invalid_config(f"malformed op list: {e!r}")
    labels |= {f"flag:{f}" for f in it.flags}
    if it.bad:
        return violation(it.bad[0], it.bad[1], labels)
    nontrivial = {"objective_replaced", "queued_before_optimize", "optimized"} <= it.flags
    return ok(labels, nontrivial)


def run_case(case, tier="quick"):
    try:
        kind = case["kind"]
    except Exception:
        return invalid_config("no kind")
    try:
        if kind in ("bin", "int"):
            return run_product(case)
        if kind == "pwc":
            return run_pwc(case)
        if kind == "history":
            return run_history(case)
    except (KeyError, TypeError, ValueError, IndexError, ZeroDivisionError) as e:
        return invalid_config(f"malformed case: {e!r}")
    return invalid_config("unknown kind")


# ------------------------------------------------------------------------------------------ state machine
def make_machine(tier, rec, raise_on_new):
    class SolverWrapperMachine(RuleBasedStateMachine):
        def __init__(self):
            super().__init__()
            self.ops = []
            self.it = Interp()
            self.dead = False

        def _do(self, op):
            if self.dead or rec.expired():
                return
            self.ops.append(op)
            try:
                guarded(self.it.apply, op)
            except Crash as c:
                self.dead = True
                self._finish(violation("crash", f"op sequence crashed: {c}", {"kind:history"}, site=c.site))
                return
            if self.it.bad:
                self.dead = True
                self._finish(violation(self.it.bad[0], self.it.bad[1], {"kind:history"} | {f"flag:{f}" for f in self.it.flags}))

        def _finish(self, out):
            b = rec.record({"kind": "history", "ops": self.ops}, out)
            if b is not None and raise_on_new:
                raise AssertionError(f"violation bucket {b}")

        @initialize(custom=st.sampled_from([True, False, False]), tl=st.sampled_from([30, 30, None]), presolve=st.sampled_from(["choose", "choose", "on", "off"]))
        def wrapper_options(self, custom, tl, presolve):
            self._do(["wrapper", {"custom_timeout": custom, "time_limit": tl, "presolve": presolve}])

        @rule(n=st.integers(1, 3), integer=st.booleans(), style=st.sampled_from(["scalar", "dict", "seq"]),
              lbs=st.lists(st.integers(0, 3), min_size=3, max_size=3), widths=st.lists(st.integers(0, 5), min_size=3, max_size=3))
        def add_variables(self, n, integer, style, lbs, widths):
            ubs = [l + w for l, w in zip(lbs, widths)]
            self._do(["add", n, integer, style, lbs, ubs])

        @rule(coefs=st.lists(st.tuples(st.integers(0, 12), st.integers(-3, 3)), min_size=1, max_size=4), const=st.integers(-2, 2),
              sense=st.sampled_from(["minimize", "maximize", "min", "max"]))
        def set_objective(self, coefs, const, sense):
            self._do(["obj", [list(c) for c in coefs], const, sense])

        @rule(i=st.integers(0, 12), frac=st.sampled_from([0.0, 0.5, 1.0, 0.25]))
        def queue_fix(self, i, frac):
            self._do(["fix", i, frac])

        @rule(i=st.integers(0, 12), frac=st.sampled_from([0.0, 0.5, 1.0, 0.75]))
        def queue_lb(self, i, frac):
            self._do(["lb", i, frac])

        @rule(ask=st.lists(st.integers(0, 12), min_size=1, max_size=4))
        def optimize(self, ask):
            self._do(["opt", ask])

        def teardown(self):
            if not self.dead and self.ops and not rec.expired():
                flags = self.it.flags
                out = ok({"kind:history"} | {f"flag:{f}" for f in flags}, {"objective_replaced", "queued_before_optimize", "optimized"} <= flags)
                rec.record({"kind": "history", "ops": self.ops}, out)

    return SolverWrapperMachine
