"""C16 - MinErrorFlow returns a closest non-negative flow on the same graph."""
import networkx as nx
from hypothesis import strategies as st

from .. import gen
from ..common import graph_from_json, inconclusive, invalid_config, ok, violation
from ..models import expand_nodes, materialize_kwargs, run_model, solver_artifact, timed_out
from ..oracle.l1flow import closest_flow_cost, grid_of

ID = "C16"
LEVEL = "exploration"
TECHNIQUE = "property-based testing (Hypothesis): generated weighted digraphs; validity predicate + differential optimum against a min-cost-flow (network simplex) reference"
LEVEL_TEXT = (
    "Generated-input exploration of MinErrorFlow on DAGs and cyclic digraphs (also without source/sink), edge and node weights, int and "
    "dyadic float data, ignore lists, error scalings, additional starts/ends, sparsity and few-values epsilon.  Oracle: same node/edge "
    "sets, non-negativity, conservation at every inner node that is not a declared start/end, reported error == recomputed sum |f-x|, "
    "and the (scaled) objective equals the optimum of an independent residual min-cost-flow formulation solved by networkx' network "
    "simplex (exact on the integer-scaled data); with epsilon the result must stay within (1+epsilon) of that optimum."
)
LEVEL_NOTE = "Trusted: networkx.network_simplex, CPython, Hypothesis. Optimum under the one-sided start/end reading (DESIGN.md C16); the literal reading is used only as a lower bound, never for an alarm."
RULE = (
    "case = MinErrorFlow construction: graph (DAG / cyclic gadgets / strongly connected without source or sink), weights = planted flow "
    "+ integer noise or arbitrary small non-negatives, optional node origin, ignored elements, error scaling in {0,.25,.5,1}, starts/ends, "
    "sparsity_lambda in {0,1,2.5} (DAG), epsilon in {None,.25,1}. non-trivial = optimum > 0, or scaling/ignore/starts/ends present; distinct = case hash."
)
ASSUMPTIONS = ["weights are multiples of 0.25 (dyadic) so that the integer-scaled reference is exact"]
BUDGET = {"quick": {"examples": 2400, "deadline_s": 90}, "thorough": {"examples": 40000, "deadline_s": 900}}


@st.composite
def strategy_(draw, tier):
    big = tier == "thorough"
    ch = draw(gen.choosers(64))
    shape = draw(st.sampled_from(["cyc", "dag", "cyc", "dag", "scc"]))
    if shape == "dag":
        nodes, edges = draw(gen.dags(2, 7 if big else 5, True))
    elif shape == "cyc":
        nodes, edges = draw(gen.cyclic_digraphs(max_nodes=8 if big else 6, odd_names=True))
    else:
        n = draw(st.integers(2, 5))
        nodes = draw(gen.node_names(n, True))
        edges = [(nodes[i], nodes[(i + 1) % n]) for i in range(n)]
        for i in range(n):
            for j in range(n):
                if (nodes[i], nodes[j]) not in edges and ch.below(6) == 0:
                    edges.append((nodes[i], nodes[j]))
    wt = draw(st.sampled_from(["int", "float"]))
    node_mode = ch.below(4) == 0
    # weights: planted route(s) + noise, or arbitrary
    G = nx.DiGraph()
    G.add_nodes_from(nodes)
    G.add_edges_from(edges)
    elems = list(nodes) if node_mode else list(edges)
    vals = {}
    if shape != "scc" and ch.coin(2, 3):
        for _ in range(1 + ch.below(3)):
            r = gen.random_st_walk(ch, nodes, edges, target_len=2 + ch.below(5), cap=10) if shape == "cyc" else gen.random_st_path(ch, nodes, edges)
            w = 1 + ch.below(5)
            for el in r if node_mode else zip(r[:-1], r[1:]):
                vals[el] = vals.get(el, 0) + w
        for el in elems:
            vals.setdefault(el, 0)
            if ch.coin(1, 3):
                vals[el] = max(0, vals[el] + ch.pick([-2, -1, 1, 2, 3]))
    else:
        for el in elems:
            vals[el] = ch.below(8)
    if wt == "float":
        for el in elems:
            if ch.coin(1, 3):
                vals[el] = vals[el] + ch.pick([0.25, 0.5, 0.75])
            vals[el] = float(vals[el])
    missing = []
    if node_mode and ch.coin(1, 4):
        missing = ch.subset(nodes, 1, 4)[: max(0, len(nodes) - 1)]
    kw = {"weight_type": wt}
    if node_mode:
        kw["flow_attr_origin"] = "node"
    if ch.coin(1, 4):
        ign = ch.subset(elems, 1, 3)
        if ign and len(ign) < len(elems):
            kw["elements_to_ignore"] = [x if node_mode else list(x) for x in ign]
    if ch.coin(1, 4):
        kw["error_scaling"] = [[x if node_mode else list(x), ch.pick([0, 0.25, 0.5, 1])] for x in (ch.subset(elems, 1, 3) or [elems[0]])]
    if ch.coin(1, 3):
        srcs, snks = gen.sources_sinks(nodes, edges)
        s_ = ch.subset(nodes, 1, 3)
        e_ = ch.subset(nodes, 1, 3)
        if s_:
            kw["additional_starts"] = sorted(s_)
        if e_:
            kw["additional_ends"] = sorted(e_)
    if shape == "dag" and ch.coin(1, 6):
        kw["sparsity_lambda"] = ch.pick([1, 2.5, 0.5])
    if ch.coin(1, 5):
        kw["few_flow_values_epsilon"] = ch.pick([0.25, 1, 0.5])
    g = {"nodes": [[v, ({"flow": vals[v]} if node_mode and v not in missing else {})] for v in nodes],
         "edges": [[u, v, ({"flow": vals[(u, v)]} if not node_mode else {})] for (u, v) in edges]}
    return {"cls": "MinErrorFlow", "graph": g, "flow_attr": "flow", "kw": kw, "meta": {"shape": shape}}


def strategy(tier):
    return strategy_(tier)


def run_case(case, tier="quick"):
    try:
        kw = case.get("kw", {})
        G = graph_from_json(case["graph"])
        declared = {n for n, _d in case["graph"].get("nodes", [])}
        if any(u not in declared or v not in declared for u, v, _d in case["graph"].get("edges", [])):
            return invalid_config("edge endpoint missing from node list")
        node_mode = kw.get("flow_attr_origin", "edge") == "node"
        wt = kw.get("weight_type", "float")
        if G.number_of_edges() == 0 and not node_mode:
            return invalid_config("no edges")
        if G.number_of_nodes() == 0:
            return invalid_config("no nodes")
        starts, ends = kw.get("additional_starts", []), kw.get("additional_ends", [])
        if any(v not in G for v in list(starts) + list(ends)):
            return invalid_config("unknown start/end")
        ign = kw.get("elements_to_ignore", [])
        ignored = set(ign) if node_mode else {tuple(e) for e in ign}
        scaling = {(e if node_mode else tuple(e)): s for e, s in kw.get("error_scaling", [])}
        if any(not (0 <= s <= 1) for s in scaling.values()):
            return invalid_config("scale out of range")
        f = {}
        for el, d in (G.nodes(data=True) if node_mode else [((u, v), d) for u, v, d in G.edges(data=True)]):
            if "flow" in d:
                if d["flow"] < 0 or abs(d["flow"] * 4 - round(d["flow"] * 4)) > 1e-9:
                    return invalid_config("weight negative / not dyadic")
                f[el] = d["flow"]
            elif not node_mode and el not in ignored:
                return invalid_config("edge without weight that is not ignored")
        if wt == "int" and any(float(v) != int(v) for v in f.values()):
            return invalid_config("fractional data with int type")
        if any(el not in (G.nodes if node_mode else G.edges) for el in list(ignored) + list(scaling)):
            return invalid_config("ignore/scale element not in graph")
        if not any(v > 0 for el, v in f.items() if el not in ignored):
            return invalid_config("no positive non-ignored weight")
    except Exception as e:
        return invalid_config(f"malformed case {e!r}")
    cyclic = not nx.is_directed_acyclic_graph(G)
    lam = kw.get("sparsity_lambda", 0)
    eps = kw.get("few_flow_values_epsilon")
    if cyclic and lam:
        return invalid_config("sparsity on cyclic graph is documented as rejected")
    labels = {"cyclic" if cyclic else "dag", "node" if node_mode else "edge", f"wt:{wt}"}
    for k_ in ("elements_to_ignore", "error_scaling", "additional_starts", "additional_ends", "sparsity_lambda", "few_flow_values_epsilon"):
        if kw.get(k_):
            labels.add("kw:" + k_)
    facts = {"cyclic": cyclic, "has_starts_ends": bool(starts or ends), "node_mode": node_mode}
    try:
        r = run_model(case, tier, get_objective=False)
    except Exception as e:
        return invalid_config(f"harness could not build the call: {e!r}")
    if r.ctor_error:
        return violation("ctor_crash", f"well-formed input rejected: {r.ctor_error}", labels, site=r.ctor_error.site, facts=facts)
    if r.solve_error:
        return violation("solve_crash", f"solve() raised {r.solve_error}", labels, site=r.solve_error.site, facts=facts)
    if not r.solved:
        if timed_out(r):
            return inconclusive("time_limit", labels)
        if solver_artifact(case, tier, r):
            return inconclusive("solver artefact: solved only with HiGHS presolve off", labels)
        return violation("unsolved", f"MinErrorFlow not solved (status {r.status}); a feasible correction always exists (x = 0)", labels, facts=facts)
    if r.sol_error:
        return violation("get_solution_crash", str(r.sol_error), labels, site=r.sol_error.site, facts=facts)
    sol = r.solution
    C = sol.get("graph")
    if C is None or set(C.nodes()) != set(G.nodes()) or set(C.edges()) != set(G.edges()):
        return violation("graph_changed", f"corrected graph has nodes {sorted(C.nodes()) if C is not None else None} edges {sorted(C.edges()) if C is not None else None}", labels, facts=facts)
    x = {}
    for el in f:
        d = C.nodes[el] if node_mode else C.edges[el]
        if "flow" not in d:
            return violation("value_missing", f"corrected graph lacks the value of {el}", labels, facts=facts)
        x[el] = d["flow"]
        if x[el] < -1e-7:
            return violation("negative_value", f"{el}: {x[el]}", labels, facts=facts)
        if wt == "int" and type(x[el]) is not int:
            return violation("value_type", f"{el}: {x[el]!r} is not int", labels, facts=facts)
    tol = 1e-6 * (1 + max(f.values()))
    exempt = set(starts) | set(ends)
    if not node_mode:
        for v in G.nodes():
            if G.in_degree(v) == 0 or G.out_degree(v) == 0 or v in exempt:
                continue
            missing_attr = [e for e in list(G.in_edges(v)) + list(G.out_edges(v)) if e not in x]
            if missing_attr:
                continue  # incident ignored edge without value: its corrected value is not exposed
            a = sum(x[e] for e in G.in_edges(v))
            b = sum(x[e] for e in G.out_edges(v))
            if abs(a - b) > tol:
                return violation("not_conserving", f"node {v}: in {a} out {b}; corrected {x}", labels, facts=facts)
        Gx, fx, ren = G, x, (lambda e: e)
    else:
        # node values must be realisable by non-negative edge flows: closest-flow distance 0 on the harness' own expansion
        H, ne = expand_nodes(G)
        fx = {ne[v]: val for v, val in x.items()}
        free_cost = {e: 0 for e in H.edges()}
        for v in x:
            free_cost[ne[v]] = 1
        # the corrected values need not lie on the input's 0.25 grid (second stage of few_flow_values_epsilon): use their own grid,
        # or the finest one with a tolerance that covers the rounding
        gx = grid_of(list(fx.values()))
        d0 = closest_flow_cost(H, {e: (fx.get(e, 0)) for e in H.edges()}, free_cost, [ne[v][0] for v in starts], [ne[v][1] for v in ends], one_sided=False, grid=gx or (1 << 16))
        if d0 is None or d0 > (tol if gx else tol + len(fx) / float(1 << 15)):
            return violation("not_conserving", f"node values {x} cannot be realised by a conserving edge flow (distance {d0})", labels, facts=facts)
    # reported error
    err_re = sum(abs(f[el] - x[el]) for el in f if el not in ignored and scaling.get(el, 1) != 0)
    if abs(sol.get("error", 0) - err_re) > tol * max(1, len(f)):
        return violation("error_mismatch", f"reported error {sol.get('error')} but sum |f-x| over non-ignored elements = {err_re}", labels, facts=facts)
    obj_re = sum(scaling.get(el, 1) * abs(f[el] - x[el]) for el in f if el not in ignored)
    # reference optimum
    if node_mode:
        H, ne = expand_nodes(G)
        ff = {ne[v]: val for v, val in f.items()}
        cost = {e: 0 for e in H.edges()}
        for v in f:
            cost[ne[v]] = 0 if v in ignored else scaling.get(v, 1)
        for v in G.nodes():
            if v not in f:
                cost[ne[v]] = 0
        s2, e2 = [ne[v][0] for v in starts], [ne[v][1] for v in ends]
        opt = closest_flow_cost(H, ff, cost, s2, e2, one_sided=True)
        opt_lit = closest_flow_cost(H, ff, cost, s2, e2, one_sided=False)
    else:
        cost = {e: (0 if e in ignored else scaling.get(e, 1)) for e in G.edges()}
        opt = closest_flow_cost(G, f, cost, starts, ends, one_sided=True)
        opt_lit = closest_flow_cost(G, f, cost, starts, ends, one_sided=False)
    if opt is None or opt_lit is None:
        return inconclusive("reference infeasible?", labels)
    facts.update(optimum=opt, optimum_literal=opt_lit, returned=obj_re)
    if obj_re < opt_lit - tol * max(1, len(f)):
        return inconclusive(f"oracle disagreement: returned valid flow with cost {obj_re} below the reference lower bound {opt_lit}", labels)
    bound = opt * (1 + (eps or 0))
    if not lam and obj_re > bound + tol * max(1, len(f)):
        return violation(
            "not_closest" if not eps else "epsilon_budget_exceeded",
            f"scaled change of the returned flow = {obj_re}, but a valid flow with {opt} exists (epsilon={eps}); corrected {x}",
            labels,
            facts=facts,
        )
    if not lam and not eps and abs(sol.get("objective_value", obj_re) - obj_re) > tol * max(1, len(f)):
        return violation("objective_mismatch", f"objective_value {sol.get('objective_value')} vs recomputed {obj_re}", labels, facts=facts)
    labels.add("opt>0" if opt > 0 else "opt=0")
    nontrivial = opt > 0 or bool(ignored) or bool(scaling) or bool(starts) or bool(ends)
    return ok(labels, nontrivial, facts)
