"""C19 - invalid inputs are rejected with ValueError instead of being solved; valid inputs are accepted."""
import copy

import networkx as nx
from hypothesis import strategies as st

from .. import gen
from ..common import Crash, graph_from_json, guarded, inconclusive, invalid_config, ok, violation
from ..models import COVER_CLASSES, CYC_CLASSES, MIN_CLASSES, CONSTRAINT_KEY, materialize_kwargs

ID = "C19"
LEVEL = "exploration"
TECHNIQUE = "property-based testing (Hypothesis): mutation of generated valid inputs by a catalogue of documented domain violations (expected: ValueError, never solved) + converse acceptance of generated well-formed inputs"
LEVEL_TEXT = (
    "Generated-input exploration: a valid base construction (accepted and solved, checked) is mutated by one catalogued violation that the "
    "class, the shared s-t graph class or the feature's documentation names (applicability table in the check's source and evidence); the "
    "model must raise ValueError at construction or at the latest in solve() and must never report solved; any other exception type is a "
    "violation.  Converse: generated well-formed inputs with at least one non-ignored weighted element (incl. digraphs with edges on no "
    "source-sink walk) must be accepted without any exception (SystemExit included)."
)
LEVEL_NOTE = "Trusted: CPython, networkx, Hypothesis. Contracts are taken from docstrings ('Raises'), docs/ pages and the s-t graph classes, never inferred from names."
RULE = (
    "case = (valid base model_cases() input, mutation name or None, picks). non-trivial = a mutation applied on top of a base that is accepted and "
    "solved without it, or (converse) a well-formed input with cycles / several sources-sinks / node mode; distinct = case hash."
)
ASSUMPTIONS = ["mutations are applied only to classes for which the violated condition is documented (see APPLICABLE)"]
BUDGET = {"quick": {"examples": 2400, "deadline_s": 100}, "thorough": {"examples": 40000, "deadline_s": 900}}

FLOW = ["kFlowDecomp", "MinFlowDecomp", "kLeastAbsErrors", "kMinPathError", "kFlowDecompCycles", "MinFlowDecompCycles", "kLeastAbsErrorsCycles", "kMinPathErrorCycles"]
ALL = gen.ALL_CLASSES
KMODELS = [c for c in ALL if c not in MIN_CLASSES]
# mutation -> classes for which the condition is documented (docstring 'Raises', docs page of the feature, or the s-t graph class)
APPLICABLE = {
    "non_string_node": ALL,
    "cycle_in_dag": gen.DAG_CLASSES,
    "no_source": gen.CYC_CLASSES,
    "no_sink": gen.CYC_CLASSES,
    "negative_weight": FLOW,
    "missing_weight": FLOW,
    "non_conserving": ["kFlowDecomp", "MinFlowDecomp", "MinFlowDecompCycles"],
    "constraint_absent_edge": ALL,
    "constraint_empty": ALL,
    "constraint_not_list": ALL,
    "constraint_bad_arity": ALL,
    "coverage_zero": ALL,
    "coverage_above_one": ALL,
    "k_zero": KMODELS,
    "k_negative": KMODELS,
    "weight_type_str": FLOW,
    "origin_vertex": ALL,
    "unknown_start": sorted(gen.HAS_STARTS_ENDS),
    "unknown_end": sorted(gen.HAS_STARTS_ENDS),
    "scale_above_one": sorted(gen.HAS_SCALING),
    "scale_negative": sorted(gen.HAS_SCALING),
    "ignore_wrong_kind": ALL,
}
MUTATIONS = sorted(APPLICABLE)


@st.composite
def strategy_(draw, tier):
    big = tier == "thorough"
    mut = draw(st.sampled_from([None, None] + MUTATIONS))
    classes = APPLICABLE[mut] if mut else ALL
    conv_wild = mut is None and draw(st.integers(0, 3)) == 0
    case = draw(gen.model_cases(classes=list(classes), max_nodes=6 if big else 5, p_opts=0, p_constr=2 if (mut or "").startswith(("constraint", "coverage")) else 5, p_ignore=6, p_se=5, p_node=5, noise=True))
    out = {"base": case, "mutation": mut, "pick": draw(st.lists(st.integers(0, 30), min_size=4, max_size=4))}
    if conv_wild and case["cls"] in gen.CYC_CLASSES and case["kw"].get("flow_attr_origin", case["kw"].get("cover_type", "edge")) == "edge":
        # converse on unrestricted digraphs: add a dead-end or unreachable cycle (edges on no source-sink walk)
        g = case["graph"]
        names = [n for n, _d in g["nodes"]]
        x, y = "zz1", "zz2"
        attr = {} if case["cls"] in COVER_CLASSES else {"flow": 1 if case["kw"].get("weight_type") == "int" else 1.0}
        kind = draw(st.sampled_from(["dead_end_loop", "unreachable_cycle", "dead_end_cycle"]))
        if kind == "dead_end_loop":
            g["nodes"].append([x, {}])
            g["edges"] += [[names[0], x, dict(attr)], [x, x, dict(attr)]]
        elif kind == "unreachable_cycle":
            g["nodes"] += [[x, {}], [y, {}]]
            g["edges"] += [[x, y, dict(attr)], [y, x, dict(attr)], [y, names[-1], dict(attr)]]
        else:
            g["nodes"] += [[x, {}], [y, {}]]
            g["edges"] += [[names[0], x, dict(attr)], [x, y, dict(attr)], [y, x, dict(attr)]]
        out["wild"] = kind
    return out


def strategy(tier):
    return strategy_(tier)


def _not_conserving(G, kw):
    """Edge mode: some node that is neither a source/sink nor an additional start/end has different in- and out-flow."""
    free = set(kw.get("additional_starts", [])) | set(kw.get("additional_ends", []))
    for v in G.nodes():
        if v in free or G.in_degree(v) == 0 or G.out_degree(v) == 0:
            continue
        fin = sum(d.get("flow", 0) for _u, _v, d in G.in_edges(v, data=True))
        fout = sum(d.get("flow", 0) for _u, _v, d in G.out_edges(v, data=True))
        if abs(fin - fout) > 1e-9:
            return True
    return False


def apply_mutation(name, cls, G, kw, pick):
    """Returns (G', kw') or None when the mutation cannot be applied to this base."""
    G = G.copy()
    kw = copy.deepcopy({k: v for k, v in kw.items() if k != "weight_type"}) | ({"weight_type": kw["weight_type"]} if "weight_type" in kw else {})
    node_mode = kw.get("flow_attr_origin", kw.get("cover_type", "edge")) == "node"
    nodes = list(G.nodes())
    edges = list(G.edges())
    ckey = CONSTRAINT_KEY[cls]
    cov_key = "subset_constraints_coverage" if cls in CYC_CLASSES else "subpath_constraints_coverage"
    ign = set(kw.get("elements_to_ignore", []))
    # an element with error scale factor 0 is documented (and implemented) as ignored
    sc = kw.get("error_scaling") or {}
    ign |= {(tuple(e) if isinstance(e, list) else e) for e, s_ in (sc.items() if isinstance(sc, dict) else sc) if s_ == 0}
    if name == "non_string_node":
        v = nodes[pick[0] % len(nodes)]
        if any(v in c for c in kw.get(ckey, []) for _ in [0]) and node_mode:
            return None
        H = nx.relabel_nodes(G, {v: 7}, copy=True)
        def ren(x):
            return 7 if x == v else x
        for key in ("additional_starts", "additional_ends"):
            if key in kw:
                kw[key] = [ren(x) for x in kw[key]]
        if "elements_to_ignore" in kw:
            kw["elements_to_ignore"] = [ren(e) if node_mode else tuple(ren(x) for x in e) for e in kw["elements_to_ignore"]]
        if ckey in kw:
            kw[ckey] = [[ren(e) if node_mode else tuple(ren(x) for x in e) for e in c] for c in kw[ckey]]
        if "error_scaling" in kw:
            kw["error_scaling"] = {(ren(e) if node_mode else tuple(ren(x) for x in e)): s for e, s in kw["error_scaling"].items()}
        return H, kw
    if name == "cycle_in_dag":
        if not edges:
            return None
        u, v = edges[pick[0] % len(edges)]
        attr = dict(G.edges[u, v])
        G.add_edge(v, u, **attr)
        return G, kw
    if name in ("no_source", "no_sink"):
        if kw.get("additional_starts") or kw.get("additional_ends") or not edges:
            return None
        attr = dict(G.edges[edges[0]])
        srcs = [x for x in nodes if G.in_degree(x) == 0]
        snks = [x for x in nodes if G.out_degree(x) == 0]
        if name == "no_source":
            for s in srcs:
                G.add_edge(snks[0] if snks and snks[0] != s else nodes[-1], s, **attr)
            if any(G.in_degree(x) == 0 for x in G):
                return None
        else:
            for t in snks:
                G.add_edge(t, srcs[0] if srcs and srcs[0] != t else nodes[0], **attr)
            if any(G.out_degree(x) == 0 for x in G):
                return None
        return G, kw
    if name in ("negative_weight", "missing_weight"):
        els = [v for v in nodes if "flow" in G.nodes[v] and v not in ign] if node_mode else [e for e in edges if "flow" in G.edges[e] and e not in ign]
        if not els:
            return None
        el = els[pick[0] % len(els)]
        d = G.nodes[el] if node_mode else G.edges[el]
        if name == "negative_weight":
            d["flow"] = type(d["flow"])(-1) if pick[1] % 2 == 0 else -1 - abs(d["flow"])
        else:
            if node_mode:
                return None  # a node without the attribute is documented as "ignored", not as an error
            del d["flow"]
        return G, kw
    if name == "non_conserving":
        if node_mode or ign or kw.get("additional_starts") or kw.get("additional_ends"):
            return None
        inner = [v for v in nodes if G.in_degree(v) > 0 and G.out_degree(v) > 0]
        if not inner:
            return None
        v = inner[pick[0] % len(inner)]
        ins = [e for e in G.in_edges(v) if e[0] != e[1]]  # a self-loop adds to both sides of the balance
        if not ins:
            return None
        if pick[2] % 3 == 0 and cls in ("kFlowDecomp", "MinFlowDecomp") and all(isinstance(G.edges[e_].get("flow", 0), int) for e_ in G.edges()):
            # large integer data: an imbalance of one unit stays an imbalance
            for e_ in G.edges():
                if "flow" in G.edges[e_]:
                    G.edges[e_]["flow"] = G.edges[e_]["flow"] * 10 ** 9
        if pick[1] % 3 == 0:
            # one side of the balance sums to zero (zero is a legal weight): still not a flow
            for e in ins:
                G.edges[e]["flow"] = type(G.edges[e]["flow"])(0)
        else:
            e = ins[0]
            G.edges[e]["flow"] = G.edges[e]["flow"] + 1
        if not _not_conserving(G, kw):
            return None
        return G, kw
    if name.startswith("constraint_"):
        cons = [list(c) for c in kw.get(ckey, [])]
        if node_mode:
            return None
        if name == "constraint_absent_edge":
            cons.append([("zz_absent_a", "zz_absent_b")])
        elif name == "constraint_empty":
            cons.append([])
        elif name == "constraint_not_list":
            if not edges:
                return None
            cons.append(tuple([edges[0]]))
        else:
            if not edges:
                return None
            cons.append([(edges[0][0], edges[0][1], "x")])
        kw[ckey] = cons
        return G, kw
    if name in ("coverage_zero", "coverage_above_one"):
        if not kw.get(ckey):
            return None
        kw[cov_key] = 0 if name == "coverage_zero" else 1.5
        return G, kw
    if name in ("k_zero", "k_negative"):
        kw["k"] = 0 if name == "k_zero" else -1
        return G, kw
    if name == "weight_type_str":
        kw["weight_type"] = str
        return G, kw
    if name == "origin_vertex":
        kw["cover_type" if cls in COVER_CLASSES else "flow_attr_origin"] = "vertex"
        return G, kw
    if name in ("unknown_start", "unknown_end"):
        key = "additional_starts" if name == "unknown_start" else "additional_ends"
        kw[key] = list(kw.get(key, [])) + ["zz_not_a_node"]
        return G, kw
    if name in ("scale_above_one", "scale_negative"):
        els = nodes if node_mode else edges
        sc = dict(kw.get("error_scaling", {}))
        sc[els[pick[0] % len(els)]] = 1.5 if name == "scale_above_one" else -0.5
        kw["error_scaling"] = sc
        return G, kw
    if name == "ignore_wrong_kind":
        if node_mode:
            kw["elements_to_ignore"] = list(kw.get("elements_to_ignore", [])) + [tuple(edges[0]) if edges else ("a", "b")]
        else:
            kw["elements_to_ignore"] = list(kw.get("elements_to_ignore", [])) + [nodes[0]]
        return G, kw
    return None


def attempt(cls, G, kw):
    """-> (phase, exception or None, solved)"""
    import flowpaths as fp

    try:
        m = guarded(getattr(fp, cls), G, **kw)
    except Crash as c:
        return "init", c, False
    try:
        guarded(m.solve)
    except Crash as c:
        s = False
        try:
            s = bool(m.is_solved())
        except BaseException:
            pass
        return "solve", c, s
    try:
        s = bool(m.is_solved())
    except BaseException:
        s = False
    return "done", None, s


def run_case(case, tier="quick"):
    try:
        base = case["base"]
        cls = base["cls"]
        mut = case.get("mutation")
        pick = list(case.get("pick") or [0, 0, 0, 0])
        if mut is not None and (mut not in APPLICABLE or cls not in APPLICABLE[mut]):
            return invalid_config("mutation not documented for this class")
        G = graph_from_json(base["graph"])
        declared = {n for n, _d in base["graph"].get("nodes", [])}
        if any(u not in declared or v not in declared for u, v, _d in base["graph"].get("edges", [])):
            return invalid_config("edge endpoint missing from node list")
        kw = materialize_kwargs(base, tier)
        node_mode = kw.get("flow_attr_origin", kw.get("cover_type", "edge")) == "node"
        # the converse / the base must be inside the documented domain
        if not all(isinstance(v, str) for v in G.nodes()):
            return invalid_config("base has non-string nodes")
        if cls not in CYC_CLASSES and not nx.is_directed_acyclic_graph(G):
            return invalid_config("base: cyclic graph for a DAG model")
        if (G.number_of_edges() == 0 and not node_mode) or G.number_of_nodes() == 0:
            return invalid_config("base: empty graph")
        if cls not in COVER_CLASSES:
            ign = set(kw.get("elements_to_ignore", []))
            sc0 = {e for e, s in (kw.get("error_scaling") or {}).items() if s == 0}
            els = list(G.nodes(data=True)) if node_mode else [((u, v), d) for u, v, d in G.edges(data=True)]
            if not node_mode and any("flow" not in d for e, d in els if e not in ign):
                return invalid_config("base: weight missing on a non-ignored edge")
            if any(d.get("flow", 0) < 0 for _e, d in els):
                return invalid_config("base: negative weight")
            if not any(("flow" in d) and e not in ign and e not in sc0 for e, d in els):
                return invalid_config("base: no non-ignored weighted element")
        if cls in CYC_CLASSES:
            if not (any(G.in_degree(v) == 0 for v in G) or kw.get("additional_starts")) or not (any(G.out_degree(v) == 0 for v in G) or kw.get("additional_ends")):
                return invalid_config("base: no source or sink")
        if any(v not in G for v in list(kw.get("additional_starts", [])) + list(kw.get("additional_ends", []))):
            return invalid_config("base: unknown start/end")
        if cls not in MIN_CLASSES and not (isinstance(kw.get("k"), int) and kw["k"] >= 1) and not (kw.get("k") is None and cls in ("kMinPathError", "kMinPathErrorCycles")):
            return invalid_config("base: k")
    except Exception as e:
        return invalid_config(f"malformed case {e!r}")
    labels = {cls, f"mutation:{mut}"}
    phase, exc, solved = attempt(cls, G, kw)
    wild = case.get("wild")
    if mut is None:
        if wild:
            labels.add("wild:" + wild)
        if exc is not None:
            if exc.exc_type == "ValueError" and cls in ("kFlowDecomp", "MinFlowDecomp") and "flow conservation" in exc.msg and base["kw"].get("flow_attr_origin") != "node":
                return invalid_config("base flow not conserving (generator noise)")
            if exc.exc_type == "ValueError" and cls in ("kFlowDecompCycles", "MinFlowDecompCycles") and "flow conservation" in exc.msg and not node_mode and _not_conserving(G, kw):
                return invalid_config("base flow not conserving at an inner node")
            return violation(f"valid_input_rejected:{cls}", f"{cls}: well-formed input raised {exc} during {phase}", labels, site=exc.site,
                             facts={"edge_off_st_walk": bool(wild), "node_mode": node_mode, "has_starts_ends": bool(kw.get("additional_starts") or kw.get("additional_ends"))})
        nontrivial = (not nx.is_directed_acyclic_graph(G)) or node_mode or sum(1 for v in G if G.in_degree(v) == 0) >= 2 or bool(wild)
        labels.add("accepted")
        return ok(labels, nontrivial)
    # mutation: the base must be accepted (and is normally solved)
    if exc is not None:
        return invalid_config(f"base input not accepted: {exc.exc_type}")
    m = apply_mutation(mut, cls, G, kw, pick)
    if m is None:
        return invalid_config("mutation not applicable to this base")
    G2, kw2 = m
    phase2, exc2, solved2 = attempt(cls, G2, kw2)
    facts = {"phase": phase2, "base_solved": solved}
    if solved2:
        return violation(f"invalid_input_solved:{mut}:{cls}", f"{cls} with {mut} reports is_solved() == True (exception: {exc2})", labels, facts=facts)
    if exc2 is None:
        return violation(f"invalid_input_not_rejected:{mut}:{cls}", f"{cls} with {mut}: no exception at construction or solve() (solve ended unsolved)", labels, facts=facts)
    if exc2.exc_type != "ValueError":
        return violation(f"wrong_exception_type:{mut}:{cls}", f"{cls} with {mut}: raised {exc2} during {phase2} instead of ValueError", labels, site=exc2.site, facts=facts)
    labels.add(f"rejected_in:{phase2}")
    return ok(labels, bool(solved))
