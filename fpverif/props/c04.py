"""C04 - MinFlowDecompCycles finds a decomposition into the fewest walks; scale invariance."""
import copy
from collections import Counter

from hypothesis import strategies as st

from .. import gen
from ..common import TOL, graph_from_json, inconclusive, invalid_config, ok, violation
from ..models import flow_of, rerun_presolve_off, run_model, solver_artifact, timed_out
from ..oracle import bf
from ..oracle.routes import check_route, walk_vectors

ID = "C04"
LEVEL = "exploration"
TECHNIQUE = "property-based testing (Hypothesis): planted walk superpositions on cyclic digraphs; exhaustive walk-vector minimality oracle; metamorphic scaling relation"
LEVEL_TEXT = (
    "Generated-input exploration of MinFlowDecompCycles on planted integer superpositions of source->sink walks (self-loops, "
    "nested SCC gadgets, parallel SCC exits): solve() must succeed, the answer must decompose the flow, use <= the planted "
    "number of walks, and on tiny instances an exhaustive enumeration of all walk multiplicity vectors (m(e) <= f(e)) proves "
    "that no integer-weighted decomposition with fewer walks exists (subset constraints honoured).  Metamorphic: scaling all "
    "flows by c (float weights) must not change solvability or the number of walks."
)
LEVEL_NOTE = "Trusted: CPython fractions, networkx, Hypothesis. Exhaustive part limited to <= 150 walk vectors and answers <= 4."
RULE = (
    "cases = planted superpositions of 1-3 weighted walks (weights 1-4) on generated cyclic digraphs (<= 6/8 nodes), optional "
    "subset constraints taken from planted walks (coverage 1/0.75/0.5/0.34), ignored elements, node origin, walk-model "
    "optimisation settings; in 1/3 of the cases additionally a scale factor c in {0.25,0.5,2,3,4,10} for the metamorphic run. "
    "non-trivial = solved AND graph has a cycle AND (some returned walk traverses an edge >= 2 times or >= 2 walks); distinct = case hash."
)
ASSUMPTIONS = [
    "exhaustive minimality only when the instance has <= 150 distinct walk vectors with m(e) <= f(e); otherwise planted-witness bound only",
]
BUDGET = {"quick": {"examples": 1400, "deadline_s": 100}, "thorough": {"examples": 20000, "deadline_s": 900}}
SCALES = [2, 0.5, 3, 0.25, 4, 10]


@st.composite
def strategy_(draw, tier):
    big = tier == "thorough"
    case = draw(gen.model_cases(classes=["MinFlowDecompCycles"], max_nodes=7 if big else 5, noise=False, p_opts=0, p_se=0, p_constr=3, p_ignore=5, p_node=5, weight_types=("int",)))
    mode = draw(st.sampled_from(["default", "mgs", "opts", "mgs", "guess", "default"]))
    opts = {}
    if mode == "opts":
        opts = draw(gen.option_dicts("MinFlowDecompCycles"))
        opts.pop("optimize_with_safe_sequences_fix_via_bounds", None)
    elif mode == "mgs":
        opts["use_min_gen_set_lowerbound"] = True
    elif mode == "guess":
        opts["optimize_with_guessed_weights"] = True
        opts["use_min_gen_set_lowerbound"] = draw(st.booleans())
    if opts:
        case["kw"]["optimization_options"] = opts
    case["meta"]["mode"] = mode
    if draw(st.integers(0, 2)) == 0:
        case["meta"]["scale"] = draw(st.sampled_from(SCALES))
    return case


def strategy(tier):
    return strategy_(tier)


def subset_predicate(vectors, constraints, coverage):
    if not constraints:
        return None
    cons = [set(tuple(e) for e in c) for c in constraints]

    def pred(sub):
        for c in cons:
            need = len(c) * coverage
            if not any(sum(1 for e in c if vectors[i].get(e, 0) > 0) >= need - 1e-9 for i in sub):
                return False
        return True

    return pred


def _scaled_case(case, c):
    sc = copy.deepcopy(case)
    for _n, d in sc["graph"]["nodes"]:
        if "flow" in d:
            d["flow"] = float(d["flow"]) * c
    for _u, _v, d in sc["graph"]["edges"]:
        if "flow" in d:
            d["flow"] = float(d["flow"]) * c
    sc["kw"]["weight_type"] = "float"
    return sc


def run_case(case, tier="quick"):
    try:
        if case["cls"] != "MinFlowDecompCycles":
            return invalid_config("class")
        kw = case.get("kw", {})
        G = graph_from_json(case["graph"])
        meta = case.get("meta") or {}
        declared = {n for n, _d in case["graph"].get("nodes", [])}
        if any(u not in declared or v not in declared for u, v, _d in case["graph"].get("edges", [])):
            return invalid_config("edge endpoint missing from the node list")
    except Exception as e:
        return invalid_config(f"malformed case {e!r}")
    node_mode = kw.get("flow_attr_origin", "edge") == "node"
    wt = kw.get("weight_type", "int")
    labels = {f"mode:{meta.get('mode', 'default')}", "node" if node_mode else "edge"}
    if not node_mode and (any(G.degree(v) == 0 for v in G) or any("flow" not in d for _u, _v, d in G.edges(data=True))):
        return invalid_config("isolated node / edge without flow in edge mode")
    import networkx as nx

    cyclic = not nx.is_directed_acyclic_graph(G)
    labels.add("cyclic" if cyclic else "acyclic")
    f = flow_of(case, G)
    ign = kw.get("elements_to_ignore", [])
    ignored = set(ign) if node_mode else {tuple(e) for e in ign}
    f_req = {el: v for el, v in f.items() if el not in ignored}
    if not f_req or any(v < 0 for v in f.values()):
        return invalid_config("no non-ignored weighted element")
    constraints = kw.get("subset_constraints", [])
    coverage = kw.get("subset_constraints_coverage", 1.0)
    if constraints:
        labels.add("constraints")
    if ignored:
        labels.add("ignored")
    try:
        r = run_model(case, tier)
    except Exception as e:
        return invalid_config(f"harness could not build the call: {e!r}")
    facts = {"n_edges": G.number_of_edges(), "node_mode": node_mode}
    if (r.ctor_error or r.solve_error) and not (bool(meta.get("planted")) and wt == "int" and _planted_ok(G, meta["planted"], f_req, constraints, coverage, node_mode)):
        return invalid_config("no valid planted witness in the case: decomposability unknown")
    if r.ctor_error:
        return violation("ctor_crash", f"well-formed input rejected: {r.ctor_error}", labels, site=r.ctor_error.site, facts=facts)
    if r.solve_error:
        return violation("solve_crash", f"solve() raised {r.solve_error}", labels, site=r.solve_error.site, facts=facts)
    witness = bool(meta.get("planted")) and wt == "int" and _planted_ok(G, meta["planted"], f_req, constraints, coverage, node_mode)
    if not witness and (r.ctor_error or r.solve_error or not r.solved):
        return invalid_config("no valid planted witness in the case: decomposability unknown")
    if not r.solved:
        if timed_out(r):
            return inconclusive("time_limit", labels)
        if solver_artifact(case, tier, r):
            return inconclusive("solver artefact: solved only with HiGHS presolve off", labels)
        return violation("unsolved", f"solve() did not succeed although a decomposition into {meta.get('k0')} walks exists (planted {meta.get('planted')})", labels, facts=facts)
    if r.sol_error:
        return violation("get_solution_crash", str(r.sol_error), labels, site=r.sol_error.site)
    walks, weights = r.solution.get("walks"), r.solution.get("weights")
    if walks is None or weights is None or len(walks) != len(weights):
        return violation("solution_shape", f"{r.solution!r}"[:300], labels)
    for w_ in walks:
        bad = check_route(G, w_, (), (), simple=False)
        if bad:
            return violation("route:" + bad[0], bad[1], labels)
    acc = Counter()
    for p, w in zip(walks, weights):
        for el in p if node_mode else zip(p[:-1], p[1:]):
            acc[el] += w
    for el, fe in f_req.items():
        if (wt == "int" and acc.get(el, 0) != fe) or (wt != "int" and abs(acc.get(el, 0) - fe) > TOL * (1 + max(f_req.values()))):
            return violation("flow_mismatch", f"{el}: flow {fe} vs {acc.get(el, 0)}; walks={walks} weights={weights}", labels, facts=facts)
    used_sets = [set(p) if node_mode else set(zip(p[:-1], p[1:])) for p in walks]
    for c in constraints:
        cc = {(x if node_mode else tuple(x)) for x in c}
        if not any(len(cc & s) >= len(cc) * coverage - 1e-9 for s in used_sets):
            return violation("constraint_not_covered", f"constraint {c} (coverage {coverage}) in no single walk of {walks}", labels, facts=facts)
    n = len(walks)

    def presolve_artifact():
        """HiGHS presolve occasionally reports a feasible walk model infeasible; the minimum search then skips that k.
        A count that changes with presolve off is a solver artefact, not a statement about the library."""
        try:
            r2 = rerun_presolve_off(case, tier)
            return bool(r2.solved) and len(r2.solution.get("walks") or []) != n
        except Exception:
            return False

    # (i) planted witness
    planted = meta.get("planted")
    if witness:
        dp = len({tuple(p) for p, _w in planted})
        if n > dp and presolve_artifact():
            return inconclusive("solver artefact: number of walks changes with HiGHS presolve off", labels)
        if n > dp:
            return violation("not_minimum_vs_planted", f"returned {n} walks but the planted decomposition has {dp}: {planted}", labels, facts=facts)
    # (ii) exhaustive on tiny inputs (edge mode, int weights)
    if not node_mode and wt == "int" and 2 <= n <= 4 and sum(f.values()) <= 40:
        cap = {e: int(v) for e, v in f.items()}
        for e in ignored:
            cap[e] = max(cap.get(e, 0), int(max(f_req.values())))
        vecs, complete = walk_vectors(G, cap, limit=150, max_len=60)
        if complete and len(vecs) <= (150 if n <= 3 else 40):
            pred = subset_predicate(vecs, constraints, coverage)
            found, wit = bf.exists_fd_with_at_most(vecs, n - 1, f_req, "int", pred)
            if found and presolve_artifact():
                return inconclusive("solver artefact: number of walks changes with HiGHS presolve off", labels)
            if found:
                sub, ws = wit
                return violation("not_minimum", f"returned {n} walks {walks}; but {len(sub)} suffice: {[dict(vecs[i]) for i in sub]} weights {ws}", labels, facts=facts)
            labels.add("minimality:exhaustive")
    elif n == 1:
        labels.add("minimality:trivial")
    # (iii) metamorphic scaling (float weights): f vs c*f
    c = meta.get("scale")
    if c:
        base = run_model(_scaled_case(case, 1), tier)
        scaled = run_model(_scaled_case(case, c), tier)
        labels.add(f"scale:{c}")
        small, large = (scaled, base) if c < 1 else (base, scaled)
        nw = lambda r_: len(r_.solution["walks"]) if (r_.solved and not r_.crashed) else None
        # known F8: the repetition caps are derived from the flow VALUES, so the instance with the smaller values is the one cut off
        small_worse = bool(small.crashed) or (not small.solved and bool(large.solved)) or (nw(small) is not None and nw(large) is not None and nw(small) > nw(large))
        sfacts = dict(facts, scale_factor=c, smaller_scale_worse=small_worse and not large.crashed)
        if base.crashed or scaled.crashed:
            cr = base.crashed or scaled.crashed
            return violation("scale_crash", f"float run crashed: {cr}", labels, facts=sfacts, site=cr.site)
        if timed_out(base) or timed_out(scaled):
            return inconclusive("time_limit", labels)
        if bool(base.solved) != bool(scaled.solved):
            return violation("scale_changes_solvability", f"float weights: solved(f)={base.solved} but solved({c}*f)={scaled.solved}", labels, facts=sfacts)
        if base.solved and len(base.solution["walks"]) != len(scaled.solution["walks"]):
            return violation(
                "scale_changes_optimum",
                f"float weights: {len(base.solution['walks'])} walks for f but {len(scaled.solution['walks'])} for {c}*f",
                labels,
                facts=sfacts,
            )
    mult2 = any(max(Counter(zip(p[:-1], p[1:])).values(), default=0) >= 2 for p in walks)
    if mult2:
        labels.add("multiplicity>=2")
    labels.add(f"optimum:{min(n, 4)}")
    return ok(labels, cyclic and (mult2 or n >= 2), facts)


def _planted_ok(G, planted, f_req, constraints, coverage, node_mode):
    try:
        acc = Counter()
        for p, w in planted:
            if check_route(G, list(p), (), (), simple=False) or w < 1 or int(w) != w:
                return False
            for el in p if node_mode else zip(p[:-1], p[1:]):
                acc[el] += w
        if any(acc.get(el, 0) != fe for el, fe in f_req.items()):
            return False
        sets = [set(p) if node_mode else set(zip(p[:-1], p[1:])) for p, _w in planted]
        for c in constraints:
            cc = {(x if node_mode else tuple(x)) for x in c}
            if not any(len(cc & s) >= len(cc) * coverage - 1e-9 for s in sets):
                return False
        return True
    except Exception:
        return False
