"""C01 - returned paths/walks are real source-to-sink routes of the caller's graph."""
from hypothesis import strategies as st

from .. import gen
from ..common import graph_from_json, inconclusive, invalid_config, ok, violation
from ..models import CYC_CLASSES, MIN_CLASSES, ROUTE_KEY, run_model, timed_out
from ..oracle.routes import check_route

ID = "C01"
LEVEL = "exploration"
TECHNIQUE = "property-based testing (Hypothesis): generated model constructions over all 12 model classes, route-validity predicate oracle"
LEVEL_TEXT = (
    "Generated-input exploration over class x topology x mode x k x weight type x starts/ends x ignore x constraints x options; "
    "every solved model's get_solution() is checked against a validity predicate computed on the caller's own graph. "
    "Graphs <= 5 (quick) / 7 (thorough) nodes; no proof of absence."
)
LEVEL_NOTE = "Trusted: CPython, networkx graph primitives, Hypothesis.  The oracle shares no code with flowpaths."
RULE = (
    "cases = model_cases(): class drawn from the 12 exported path/walk model classes; planted source->sink routes define "
    "the instance (DAG or cyclic with SCC gadgets), optional node mode, additional starts/ends, ignored elements, "
    "constraints taken from planted routes, error scaling, option dicts over documented flags. "
    "non-trivial = the model reports solved AND (graph has >= 2 sources or sinks, or node mode, or some returned walk "
    "repeats a node, or the class is a Min* wrapper, or starts/ends/ignored/constraints are present); distinct = case hash."
)
ASSUMPTIONS = [
    "inputs satisfy the documented domain (string nodes, non-negative weights, every edge on a source->sink route)",
    "a solver time-out (30 s quick / 120 s thorough on graphs this small) makes a case inconclusive",
]
BUDGET = {
    "quick": {"examples": 1600, "deadline_s": 100},
    "thorough": {"examples": 24000, "deadline_s": 900},
}


@st.composite
def strategy_(draw, tier):
    big = tier == "thorough"
    case = draw(gen.model_cases(max_nodes=7 if big else 5, p_opts=3, p_iso=3))
    # separately labelled class: an isolated node (both source and sink) in edge mode - single-node routes (known finding F19e)
    kw = case["kw"]
    if draw(st.integers(0, 14)) == 0 and kw.get("flow_attr_origin", kw.get("cover_type", "edge")) == "edge":
        case["graph"]["nodes"].append(["iso", {}])
        case["meta"]["isolated_node"] = True
    return case


def strategy(tier):
    return strategy_(tier)


def run_case(case, tier="quick"):
    try:
        cls = case["cls"]
        kw = case.get("kw", {})
        G = graph_from_json(case["graph"])
    except Exception as e:
        return invalid_config(f"malformed case {e!r}")
    labels = {cls, "cyclic" if cls in CYC_CLASSES else "dag"}
    node_mode = kw.get("flow_attr_origin", kw.get("cover_type", "edge")) == "node"
    if node_mode:
        labels.add("node_mode")
    starts = kw.get("additional_starts", [])
    ends = kw.get("additional_ends", [])
    for f in ("additional_starts", "elements_to_ignore", "error_scaling", "optimization_options"):
        if kw.get(f):
            labels.add("kw:" + f)
    if kw.get("subpath_constraints") or kw.get("subset_constraints"):
        labels.add("kw:constraints")
    try:
        r = run_model(case, tier)
    except Exception as e:
        return invalid_config(f"harness could not build the call: {e!r}")
    if r.ctor_error or r.solve_error:
        c = r.ctor_error or r.solve_error
        # C01 only speaks about solved models; crashes are owned by C19 (converse) / the completeness properties
        return inconclusive(f"crash:{c.exc_type}@{c.site}", labels)
    if not r.solved:
        if timed_out(r):
            return inconclusive("time_limit", labels)
        labels.add("unsolved")
        return ok(labels, False)
    if r.sol_error:
        c = r.sol_error
        return violation("get_solution_crash", f"solved model: get_solution/get_objective_value raised {c}", labels, site=c.site)
    sol = r.solution
    key = ROUTE_KEY[cls]
    if not isinstance(sol, dict) or key not in sol:
        return violation("solution_shape", f"get_solution() has no '{key}': {sol!r}"[:300], labels)
    routes = sol[key]
    opts = kw.get("optimization_options") or {}
    empties_ok = bool(kw.get("solution_weights_superset")) or bool(opts.get("allow_empty_paths")) or bool(opts.get("allow_empty_walks"))
    facts = {"single_node_route": (not node_mode) and any(G.in_degree(v) == 0 and G.out_degree(v) == 0 for v in G.nodes), "node_mode": node_mode}
    if facts["single_node_route"]:
        labels.add("isolated_node")
    nonempty = []
    for rt in routes:
        if rt == [] and empties_ok:
            continue
        bad = check_route(G, rt, starts, ends, simple=cls not in CYC_CLASSES)
        if bad:
            return violation(bad[0], bad[1], labels, facts=facts)
        nonempty.append(rt)
    # one non-negative weight (and slack) per route
    for wkey in ("weights", "slacks", "scaled_slacks"):
        if wkey in sol:
            ws = sol[wkey]
            if ws is None or len(ws) != len(routes):
                return violation("weights_mismatch", f"'{wkey}' = {ws!r} for {len(routes)} routes", labels, facts=facts)
            if any((w is None) or (w < -1e-6) for w in ws):
                return violation("negative_weight", f"'{wkey}' = {ws!r}", labels, facts=facts)
    if cls not in ("kPathCover", "MinPathCover", "kPathCoverCycles", "MinPathCoverCycles") and "weights" not in sol:
        return violation("solution_shape", f"no 'weights' in solution {list(sol)}", labels, facts=facts)
    # number of routes
    if cls not in MIN_CLASSES:
        k = kw.get("k")
        if k is None:
            k = getattr(r.model, "k", None)
        if k is not None:
            if len(nonempty) > k:
                return violation("more_than_k", f"k={k} but {len(nonempty)} routes returned", labels, facts=facts)
            if not empties_ok and not starts and not ends and len(nonempty) != k:
                return violation("not_exactly_k", f"k={k}, empties not allowed, no starts/ends, but {len(nonempty)} routes: {routes}", labels, facts=facts)
    srcs = sum(1 for v in G if G.in_degree(v) == 0)
    snks = sum(1 for v in G if G.out_degree(v) == 0)
    repeated = any(len(set(rt)) != len(rt) for rt in nonempty)
    if repeated:
        labels.add("walk_repeats_node")
    if srcs >= 2 or snks >= 2:
        labels.add("multi_source_or_sink")
    labels.add("solved")
    nontrivial = bool(srcs >= 2 or snks >= 2 or node_mode or repeated or cls in MIN_CLASSES or starts or ends or kw.get("elements_to_ignore") or "kw:constraints" in labels)
    return ok(labels, nontrivial, facts)
