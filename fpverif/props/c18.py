"""C18 - a model's result depends only on its own arguments; caller data is never mutated.  (stateful)

Histories of model constructions/solves that SHARE argument objects (graph, optimization_options, solver_options,
constraint list, ignore list, error_scaling) or omit them (mutable defaults).  Oracles:
 * no mutation: deep snapshots of every shared object are equal before and after each step;
 * history independence: each step's (solved, objective) equals the result of the same call with deep-copied
   arguments evaluated in a pristine interpreter (spawned process, one task per process);
 * repeatability: second calls of solve()/get_solution()/get_objective_value() return equal results.
"""
import copy
import multiprocessing as mp
import os

import networkx as nx
from hypothesis import strategies as st
from hypothesis.stateful import RuleBasedStateMachine, initialize, rule

from .. import gen
from ..common import TOL, Crash, dumps, graph_from_json, guarded, invalid_config, ok, solver_options, violation
from ..models import COVER_CLASSES, CYC_CLASSES, MIN_CLASSES, ROUTE_KEY, CONSTRAINT_KEY

ID = "C18"
LEVEL = "exploration"
TECHNIQUE = "property-based testing (Hypothesis RuleBasedStateMachine): histories of model constructions sharing argument objects; snapshot comparison + differential against a pristine spawned interpreter"
LEVEL_TEXT = (
    "Model-based stateful exploration: a rule-based machine draws one instance and then issues a sequence of constructions/solves over drawn "
    "model classes that share (or omit) argument objects.  After every step deep snapshots of all shared objects must be unchanged, the "
    "step's result must equal the result of the same call with deep-copied arguments in a freshly spawned interpreter, and repeated "
    "solve()/get_solution()/get_objective_value() calls must agree."
)
LEVEL_NOTE = "Trusted: CPython multiprocessing (spawn), HiGHS determinism for threads=1, Hypothesis. Interference that needs two processes or threads is out of scope."
RULE = (
    "case = (instance graph with planted flow, shared objects {optimization_options, solver_options, constraints, ignore list, error scaling}, "
    "steps = [(class, which shared objects are passed, k)]). non-trivial = >= 2 steps sharing a non-empty options dict or list, with different "
    "classes; distinct = case hash."
)
ASSUMPTIONS = ["weights of alternative optima may legitimately differ between processes, so only solved status, objective and number of routes are compared"]
BUDGET = {"quick": {"examples": 0, "deadline_s": 150}, "thorough": {"examples": 0, "deadline_s": 900}}
MACHINE_EXAMPLES = {"quick": 260, "thorough": 4000}
STEP_COUNT = {"quick": 4, "thorough": 6}
DAG = ["kFlowDecomp", "MinFlowDecomp", "kLeastAbsErrors", "kMinPathError", "kPathCover", "MinPathCover"]
CYC = ["kFlowDecompCycles", "MinFlowDecompCycles", "kLeastAbsErrorsCycles", "kMinPathErrorCycles", "kPathCoverCycles", "MinPathCoverCycles"]
SHAREABLE = ["optimization_options", "solver_options", "constraints", "elements_to_ignore", "error_scaling"]


def strategy(tier):
    return st.just({"graph": {"nodes": [["a", {}], ["b", {}]], "edges": [["a", "b", {"flow": 1}]]}, "family": "dag", "shared": {}, "steps": [{"cls": "kFlowDecomp", "use": [], "k": 1}]})


# ---------------------------------------------------------------------------------------------- evaluation
def build_kwargs(step, G, shared, family):
    """kwargs for one step; shared objects are passed BY REFERENCE when listed in step['use']."""
    cls = step["cls"]
    kw = {}
    if cls not in COVER_CLASSES:
        kw["flow_attr"] = "flow"
        kw["weight_type"] = int
    if cls not in MIN_CLASSES and cls != "MinErrorFlow":
        kw["k"] = step.get("k", 2)
    use = step.get("use", [])
    if cls == "MinErrorFlow":
        use = [u for u in use if u in ("solver_options", "elements_to_ignore", "error_scaling")]
        if step.get("eps") is not None:
            kw["few_flow_values_epsilon"] = step["eps"]  # two-stage solve: the model is replaced between the stages
    if "solver_options" not in use:
        # a private (not shared) dict; always with a time limit, so that no single model can stall a history
        kw["solver_options"] = {"threads": step.get("threads") or 1, "time_limit": 25}
    if "optimization_options" in use:
        kw["optimization_options"] = shared["optimization_options"]
    if "solver_options" in use:
        kw["solver_options"] = shared["solver_options"]
    if "constraints" in use and shared.get("constraints") is not None:
        kw[CONSTRAINT_KEY[cls]] = shared["constraints"]
    if "elements_to_ignore" in use and shared.get("elements_to_ignore") is not None:
        kw["elements_to_ignore"] = shared["elements_to_ignore"]
    if "error_scaling" in use and shared.get("error_scaling") is not None and (cls in gen.HAS_SCALING or cls == "MinErrorFlow"):
        kw["error_scaling"] = shared["error_scaling"]
    return kw


def _hit_time_limit(model):
    from ..models import model_status

    for m in (model, getattr(model, "fd_model", None), getattr(model, "model", None)):
        if m is not None:
            try:
                if model_status(m) in ("kTimeLimit", "kInterrupt", "kIterationLimit"):
                    return True
            except Exception:
                pass
    return False


def summarize(model, cls):
    solved = bool(model.is_solved())
    if not solved:
        # a run that gave up on the clock is timing dependent by nature: never compared
        return {"solved": False, "time_limit": True} if _hit_time_limit(model) else {"solved": False}
    sol = model.get_solution()
    if cls == "MinErrorFlow":
        return {"solved": True, "objective": round(float(sol["error"]), 6)}
    obj = model.get_objective_value()
    out = {"solved": True, "objective": (round(float(obj), 6) if obj is not None else None)}
    if cls in ROUTE_KEY:
        out["n_routes"] = len([r for r in sol[ROUTE_KEY[cls]] if r])
    return out


def construct(cls, G, kw):
    import flowpaths as fp

    # MinFlowDecomp's subgraph scanning only runs on graphs with more than 20 nodes (class constants 20/18); the histories use
    # 5-node graphs, so the window is reduced - identically in the history and in the pristine reference process
    fp.MinFlowDecomp.subgraph_lowerbound_size, fp.MinFlowDecomp.subgraph_lowerbound_shift = 2, 1

    try:
        return None, getattr(fp, cls)(G, **kw)
    except BaseException as e:  # noqa: BLE001
        return {"error": type(e).__name__}, None


def finish(model, cls):
    try:
        model.solve()
        return summarize(model, cls), model
    except BaseException as e:  # noqa: BLE001
        return {"error": type(e).__name__}, None


def evaluate(cls, G, kw):
    err, model = construct(cls, G, kw)
    if err is not None:
        return err, None
    return finish(model, cls)


def _reference(payload):
    """Runs in a pristine interpreter (spawned, one task per process)."""
    import json

    from fpverif.common import graph_from_json as gfj

    p = json.loads(payload)
    shared = materialize_shared(p["shared"])
    G = gfj(p["graph"])
    kw = build_kwargs(p["step"], G, shared, p["family"])
    res, _m = evaluate(p["step"]["cls"], G, kw)
    return res


def materialize_shared(sh):
    out = {}
    out["optimization_options"] = dict(sh.get("optimization_options") or {})
    # fixed values (not part of the shrinkable case: a shrunk time limit would make results timing dependent)
    out["solver_options"] = {"threads": 1, "time_limit": 25}
    out["constraints"] = [[tuple(e) for e in c] for c in sh["constraints"]] if sh.get("constraints") is not None else None
    out["elements_to_ignore"] = [tuple(e) for e in sh["elements_to_ignore"]] if sh.get("elements_to_ignore") is not None else None
    out["error_scaling"] = {tuple(e): s for e, s in sh["error_scaling"]} if sh.get("error_scaling") is not None else None
    return out


def snapshot(G, shared):
    return dumps({
        "nodes": [[n, dict(d)] for n, d in G.nodes(data=True)],
        "edges": [[u, v, dict(d)] for u, v, d in G.edges(data=True)],
        "graph_attrs": {k: repr(v) for k, v in G.graph.items()},
        "shared": {k: (sorted([repr(i) for i in v.items()]) if isinstance(v, dict) else repr(v)) for k, v in shared.items()},
    })


_POOL = None


def reference_result(case, step):
    global _POOL
    payload = dumps({"graph": case["graph"], "shared": case["shared"], "step": step, "family": case["family"]})
    ctx = mp.get_context("spawn")
    if _POOL is None:
        _POOL = ctx.Pool(1, maxtasksperchild=1)
    try:
        return _POOL.apply_async(_reference, (payload,)).get(timeout=180)
    except Exception as e:  # pool trouble is a harness problem, never a verdict
        try:
            _POOL.terminate()
        except Exception:
            pass
        _POOL = None
        return {"harness_error": repr(e)}


class Interp:
    def __init__(self, case):
        self.case = case
        self.G = graph_from_json(case["graph"])
        self.shared = materialize_shared(case["shared"])
        self.bad = None
        self.pending = []
        self.flags = {"steps": 0, "sharing_steps": 0, "classes": set()}

    def step(self, step):
        """A step constructs a model and solves it at once, or (defer=True) constructs it now and solves it only after
        the next step has run - interleaved construct/solve orders of models that share arguments."""
        if step.get("defer"):
            cls = step["cls"]
            before = snapshot(self.G, self.shared)
            kw = build_kwargs(step, self.G, self.shared, self.case["family"])
            err, model = construct(cls, self.G, kw)
            after = snapshot(self.G, self.shared)
            self.flags["steps"] += 1
            self.flags["deferred"] = self.flags.get("deferred", 0) + 1
            self.flags["classes"].add(cls)
            if before != after:
                self.bad = ("caller_data_mutated", f"constructing {cls} (passing {step.get('use')}) changed caller-side objects:\n before {before}\n after  {after}")
                return
            self.pending.append((step, model, err))
            return
        self._run(step)
        if not self.bad:
            self.flush()

    def flush(self):
        while self.pending and not self.bad:
            step, model, err = self.pending.pop(0)
            self._run(step, prebuilt=(model, err))

    def _run(self, step, prebuilt=None):
        cls = step["cls"]
        before = snapshot(self.G, self.shared)
        if prebuilt is None:
            kw = build_kwargs(step, self.G, self.shared, self.case["family"])
            res, model = evaluate(cls, self.G, kw)
            self.flags["steps"] += 1
            self.flags["classes"].add(cls)
        else:
            model, err = prebuilt
            res, model = (err, None) if err is not None else finish(model, cls)
        after = snapshot(self.G, self.shared)
        nonempty_shared = [u for u in step.get("use", []) if self.shared.get(u)]
        if nonempty_shared:
            self.flags["sharing_steps"] += 1
        if before != after:
            self.bad = ("caller_data_mutated", f"step {self.flags['steps']} ({cls}, passing {step.get('use')}) changed caller-side objects:\n before {before}\n after  {after}")
            return
        if model is not None:
            try:
                again = bool(model.solve())
                res2 = summarize(model, cls)
                res3 = summarize(model, cls)
            except BaseException as e:  # noqa: BLE001
                self.bad = ("repeat_call_crash", f"{cls}: second solve()/getters raised {type(e).__name__}: {e}")
                return
            if any(isinstance(x, dict) and x.get("time_limit") for x in (res, res2, res3)):
                self.flags["time_limit"] = self.flags.get("time_limit", 0) + 1
                return
            if res2 != res or res3 != res:
                self.bad = ("not_repeatable", f"{cls}: first {res}, after a second solve() {res2}, getters again {res3}")
                return
        ref = reference_result(self.case, step)
        if "harness_error" in ref:
            self.flags["harness_error"] = ref["harness_error"]
            return
        if (isinstance(ref, dict) and ref.get("time_limit")) or (isinstance(res, dict) and res.get("time_limit")):
            self.flags["time_limit"] = self.flags.get("time_limit", 0) + 1
            return
        if ref != res:
            self.bad = ("history_dependent", f"step {self.flags['steps']} ({cls}, passing {step.get('use')}): result {res} in this history, {ref} in a pristine interpreter with copied arguments")


def run_case(case, tier="quick"):
    try:
        it = Interp(case)
        steps = case["steps"]
        if not steps:
            return invalid_config("no steps")
        fam = (DAG if case.get("family") == "dag" else CYC) + ["MinErrorFlow"]
        if any(s["cls"] not in fam for s in steps):
            return invalid_config("class/family")
    except Exception as e:
        return invalid_config(f"malformed case {e!r}")
    labels = {f"family:{case.get('family')}"}
    for s in steps:
        it.step(s)
        if it.bad:
            return violation(it.bad[0], it.bad[1], labels | {s["cls"]})
    it.flush()
    if it.bad:
        return violation(it.bad[0], it.bad[1], labels)
    return _final(it, labels)


def _final(it, labels):
    labels = set(labels) | {f"steps:{min(it.flags['steps'], 6)}", f"sharing_steps:{min(it.flags['sharing_steps'], 4)}"}
    if it.flags.get("deferred"):
        labels.add("interleaved_construct_solve")
    nontrivial = it.flags["sharing_steps"] >= 2 and len(it.flags["classes"]) >= 2
    return ok(labels, nontrivial)


# ---------------------------------------------------------------------------------------------- machine
@st.composite
def instances(draw, tier):
    fam = draw(st.sampled_from(["dag", "cyc", "dag"]))
    case = draw(gen.model_cases(classes=["kLeastAbsErrors" if fam == "dag" else "kLeastAbsErrorsCycles"], max_nodes=5, p_node=0, p_se=0, p_ignore=2, p_constr=2, noise=False, weight_types=("int",)))
    kw = case["kw"]
    # flags of every class that may receive the shared dict (classes ignore the flags they do not know)
    flags = (gen.DAG_FLAGS + gen.DAG_FD_FLAGS + gen.MFD_FLAGS) if fam == "dag" else (gen.WALK_FLAGS + gen.MFDC_FLAGS)
    opts = {}
    for f in draw(st.lists(st.sampled_from(flags), max_size=3, unique=True)):
        opts[f] = draw(st.booleans())
    if draw(st.integers(0, 2)) == 0:
        # options that make a minimum search build auxiliary models from the caller's dict (lower bounds, guessed weights)
        opts[draw(st.sampled_from(["use_subgraph_scanning_lowerbound", "use_min_gen_set_lowerbound", "optimize_with_guessed_weights"]))] = True
    if opts.get("optimize_with_safe_paths") and opts.get("optimize_with_safe_sequences"):
        opts.pop("optimize_with_safe_sequences")
    if not kw.get("error_scaling") and draw(st.integers(0, 2)) > 0:
        # an error scale factor (0 = "treat as ignored") on one weighted edge: shared by every class that takes scalings
        es = [[u, v] for u, v, d in case["graph"]["edges"] if "flow" in d]
        if es:
            kw["error_scaling"] = [[es[draw(st.integers(0, len(es) - 1))], draw(st.sampled_from([0, 0, 0.5]))]]
    shared = {
        "optimization_options": opts,
        "solver_options": "fixed",
        "constraints": kw.get(CONSTRAINT_KEY[case["cls"]]),
        # a caller's own (possibly still empty) ignore list is an object like any other
        "elements_to_ignore": kw.get("elements_to_ignore") if kw.get("elements_to_ignore") is not None else ([] if draw(st.booleans()) else None),
        "error_scaling": kw.get("error_scaling"),
    }
    return {"graph": case["graph"], "family": fam, "shared": shared, "k0": case["meta"]["k0"], "steps": []}


def make_machine(tier, rec, raise_on_new):
    class HistoryMachine(RuleBasedStateMachine):
        def __init__(self):
            super().__init__()
            self.case = None
            self.it = None
            self.dead = False

        @initialize(inst=instances(tier))
        def setup(self, inst):
            self.case = inst
            try:
                self.it = Interp(inst)
            except Exception:
                self.dead = True

        @rule(ci=st.integers(0, 6), use=st.lists(st.sampled_from(SHAREABLE), max_size=4, unique=True), dk=st.integers(0, 2), defer=st.sampled_from([False, False, True]), threads=st.sampled_from([None, None, 1, 2]), eps=st.sampled_from([0.25, None, 1, None]))
        def construct_and_solve(self, ci, use, dk, defer, threads, eps):
            if self.dead or self.it is None or rec.expired():
                return
            fam = (DAG if self.case["family"] == "dag" else CYC) + ["MinErrorFlow"]
            step = {"cls": fam[ci % len(fam)], "use": sorted(use), "k": max(1, self.case.get("k0", 2) + dk - 1)}
            if step["cls"] == "MinErrorFlow" and eps is not None:
                step["eps"] = eps
            if defer:
                step["defer"] = True
            if threads is not None and "solver_options" not in step["use"]:
                step["threads"] = threads
            self.case["steps"].append(step)
            self.it.step(step)
            if self.it.bad:
                self.dead = True
                out = violation(self.it.bad[0], self.it.bad[1], {f"family:{self.case['family']}", step["cls"]})
                b = rec.record(self.case, out)
                if b is not None and raise_on_new:
                    raise AssertionError(f"violation bucket {b}")

        def teardown(self):
            if not self.dead and self.it is not None and self.case["steps"] and not rec.expired():
                self.it.flush()
                if self.it.bad:
                    out = violation(self.it.bad[0], self.it.bad[1], {f"family:{self.case['family']}"})
                    b = rec.record(self.case, out)
                    if b is not None and raise_on_new:
                        raise AssertionError(f"violation bucket {b}")
                    return
                rec.record(self.case, _final(self.it, {f"family:{self.case['family']}"}))

    return HistoryMachine
