"""C09 - minimum path/walk covers cover everything with fewest routes; width equals it."""
import itertools

import networkx as nx
from hypothesis import strategies as st

from .. import gen
from ..common import Crash, graph_from_json, guarded, inconclusive, invalid_config, ok, violation
from ..models import CYC_CLASSES, MIN_CLASSES, ConstraintSpec, count_artifact, expand_nodes, run_model, solver_artifact, timed_out
from ..oracle.routes import all_st_paths, check_route
from ..oracle.width import dilworth

ID = "C09"
LEVEL = "exploration"
TECHNIQUE = "property-based testing (Hypothesis): generated DAGs/cyclic digraphs; Dilworth/brute-force antichain width oracle, exhaustive cover enumeration under constraints"
LEVEL_TEXT = (
    "Generated-input exploration of MinPathCover, kPathCover, MinPathCoverCycles, kPathCoverCycles and the width functions of stDAG / "
    "stDiGraph: every non-ignored edge (node) must lie on a returned route, the number of routes must equal the independent minimum "
    "(max antichain of required inter-SCC edges and SCCs, brute force; with subpath constraints an exhaustive search over path subsets on "
    "small DAGs), get_width with the synthetic edges passed as ignored must equal it, and k-cover models must be solved exactly for k >= width."
)
LEVEL_NOTE = "Trusted: networkx SCC/reachability, CPython, Hypothesis. <= 16 poset items; constrained minimum exhaustive only for DAGs with <= 14 paths."
RULE = (
    "case = cover model construction on a planted-route instance (every edge on a source-sink route), edge or node cover, ignored elements, "
    "additional starts/ends, constraints from planted routes; for k-models k in {width-1, width, width+1}. "
    "non-trivial = width >= 2, or ignored elements change the width, or an SCC with >= 2 exits; distinct = case hash."
)
ASSUMPTIONS = ["at least one non-ignored element remains; every edge lies on a source-sink route (by construction)"]
BUDGET = {"quick": {"examples": 8000, "deadline_s": 90}, "thorough": {"examples": 30000, "deadline_s": 900}}
COVERS = ["MinPathCover", "kPathCover", "MinPathCoverCycles", "kPathCoverCycles"]


def reference_width(G, node_mode, ignored, starts, ends):
    """Independent minimum number of routes covering the non-ignored edges (nodes)."""
    if node_mode:
        H, ne = expand_nodes(G)
        required = [ne[v] for v in G.nodes() if v not in ignored]
        return dilworth(H, required, [ne[v][0] for v in starts], [ne[v][1] for v in ends])
    required = [e for e in G.edges() if e not in ignored]
    return dilworth(G, required, starts, ends)


def fan_case(cls, p, q):
    """Repetition stress: s->h1->t, h1->h2, h2->a_i, every a_i->b_j, b_j->h1.  One walk covers everything, but it has to
    cross (h1,h2) p*q times - far more often than there are nodes.  Any cap on repetitions shows here first."""
    A = [f"a{i}" for i in range(p)]
    B = [f"b{j}" for j in range(q)]
    edges = [("s", "h1"), ("h1", "t"), ("h1", "h2")] + [("h2", a) for a in A] + [(a, b) for a in A for b in B] + [(b, "h1") for b in B]
    nodes = ["s", "h1", "h2"] + A + B + ["t"]
    kw = {} if cls == "MinPathCoverCycles" else {"k": 1}
    return {"cls": cls, "graph": {"nodes": [[v, {}] for v in nodes], "edges": [[u, v, {}] for u, v in edges]}, "flow_attr": "flow", "kw": kw,
            "meta": {"planted": [], "k0": 1, "noise_total": 0, "cyclic": True, "node_mode": False, "missing_attr": [], "fan": [p, q]}}


@st.composite
def strategy_(draw, tier):
    big = tier == "thorough"
    if draw(st.integers(0, 59)) == 0:
        p_, q_ = draw(st.sampled_from([(4, 4), (3, 5), (5, 3), (2, 3), (3, 3)]))
        return fan_case(draw(st.sampled_from(["MinPathCoverCycles", "kPathCoverCycles"])), p_, q_)
    case = draw(gen.model_cases(classes=COVERS, max_nodes=7 if big else 5, p_opts=0, p_constr=3, p_ignore=3, p_se=4, p_node=3, p_len=2))
    if case["cls"] not in MIN_CLASSES:
        G = graph_from_json(case["graph"])
        kw = case["kw"]
        node_mode = kw.get("cover_type") == "node"
        ign = kw.get("elements_to_ignore", [])
        ignored = set(ign) if node_mode else {tuple(e) for e in ign}
        w = reference_width(G, node_mode, ignored, kw.get("additional_starts", []), kw.get("additional_ends", []))
        if w is not None:
            kw["k"] = max(1, w + draw(st.sampled_from([0, -1, 1, 0, 2])))
    return case


def strategy(tier):
    return strategy_(tier)


def run_case(case, tier="quick"):
    import flowpaths as fp

    try:
        cls = case["cls"]
        if cls not in COVERS:
            return invalid_config("class")
        kw = case.get("kw", {})
        G = graph_from_json(case["graph"])
        declared = {n for n, _d in case["graph"].get("nodes", [])}
        if any(u not in declared or v not in declared for u, v, _d in case["graph"].get("edges", [])):
            return invalid_config("edge endpoint missing from node list")
        node_mode = kw.get("cover_type", "edge") == "node"
        if not node_mode and (G.number_of_edges() == 0 or any(G.degree(v) == 0 for v in G)):
            return invalid_config("no edges / isolated node in edge mode")
        cyc = cls in CYC_CLASSES
        if not cyc and not nx.is_directed_acyclic_graph(G):
            return invalid_config("cyclic graph for DAG model")
        starts, ends = kw.get("additional_starts", []), kw.get("additional_ends", [])
        if any(v not in G for v in list(starts) + list(ends)):
            return invalid_config("unknown start/end")
        ign = kw.get("elements_to_ignore", [])
        ignored = set(ign) if node_mode else {tuple(e) for e in ign}
        if any((x not in G.nodes) if node_mode else (not G.has_edge(*x)) for x in ignored):
            return invalid_config("ignored element not in graph")
        spec = ConstraintSpec(case, G)
        constraints = spec.constraints
        coverage = spec.coverage
        required = [v for v in G.nodes() if v not in ignored] if node_mode else [e for e in G.edges() if e not in ignored]
        if not required:
            return invalid_config("nothing left to cover")
        # every edge must lie on an admissible route
        from ..oracle.routes import augmented
        from ..oracle import walkauto as wa

        H0, S0, T0 = augmented(G, starts, ends)
        if any(not wa.exists_walk_using(H0, S0, T0, e) for e in G.edges()):
            return invalid_config("edge on no source-sink route")
        if node_mode and any(not (nx.has_path(H0, S0, v) and nx.has_path(H0, v, T0)) for v in G.nodes()):
            return invalid_config("node on no route")
    except Exception as e:
        return invalid_config(f"malformed case {e!r}")
    labels = {cls, "node" if node_mode else "edge"}
    if ignored:
        labels.add("ignored")
    if starts or ends:
        labels.add("starts_ends")
    if constraints:
        labels.add("constraints")
    if spec.by_length:
        labels.add("length_coverage")
    if (case.get("meta") or {}).get("fan"):
        labels.add("repetition_stress")
    w = reference_width(G, node_mode, ignored, starts, ends)
    if w is None:
        return invalid_config("too many poset items for the brute-force antichain")
    w_all = reference_width(G, node_mode, set(), starts, ends)
    facts = {"width": w, "node_mode": node_mode}
    # ---- width functions of the s-t graph classes (convention: ignored + synthetic source/sink edges)
    if not node_mode:
        try:
            stg = guarded(fp.stDiGraph if cyc else fp.stDAG, G, additional_starts=list(starts), additional_ends=list(ends))
            got = guarded(stg.get_width, list(ignored) + list(stg.source_sink_edges))
            got2 = guarded(stg.get_width, list(ignored) + list(stg.source_sink_edges))
        except Crash as c:
            return violation("width_crash", f"get_width raised {c}", labels, site=c.site, facts=facts)
        if got != w or got2 != w:
            return violation("width_wrong", f"{type(stg).__name__}.get_width(ignored+synthetic) = {got}/{got2}, independent minimum {w}; ignored={sorted(ignored)}", labels, facts=facts)
    # ---- the model
    try:
        r = run_model(case, tier)
    except Exception as e:
        return invalid_config(f"harness could not build the call: {e!r}")
    if r.ctor_error:
        return violation("ctor_crash", f"well-formed input rejected: {r.ctor_error}", labels, site=r.ctor_error.site, facts=facts)
    if r.solve_error:
        return violation("solve_crash", f"solve() raised {r.solve_error}", labels, site=r.solve_error.site, facts=facts)
    k = kw.get("k") if cls not in MIN_CLASSES else None
    # constrained minimum (DAG, exhaustive)
    wc = w
    exact_constrained = not constraints
    if constraints and not cyc:
        allp = all_st_paths(G, starts, ends, limit=14)
        if allp is not None:
            allp = [p for p in allp if len(p) >= 1]
            sets = [spec.elements_of(p) for p in allp]
            pred = spec.predicate(sets)
            wc = None
            for size in range(1, min(len(allp), 6) + 1):
                for sub in itertools.combinations(range(len(allp)), size):
                    cov = set().union(*(sets[i] for i in sub))
                    if not set(required) <= cov:
                        continue
                    if pred(sub):
                        wc = size
                        break
                if wc is not None:
                    break
            exact_constrained = wc is not None
            if wc is None:
                return invalid_config("constraints not satisfiable by any cover")
    if not r.solved:
        if timed_out(r):
            return inconclusive("time_limit", labels)
        if (cls in MIN_CLASSES or (exact_constrained and k is not None and k >= wc)) and solver_artifact(case, tier, r):
            return inconclusive("solver artefact: solved only with HiGHS presolve off", labels)
        if cls in MIN_CLASSES:
            return violation("unsolved", f"{cls}.solve() did not succeed; a cover with {wc} routes exists", labels, facts=facts)
        if exact_constrained and k is not None and k >= wc:
            return violation("k_cover_unsolved", f"{cls}(k={k}) not solved although the minimum cover has {wc} routes", labels, facts=facts)
        labels.add("k<width:unsolved")
        return ok(labels, w >= 2, facts)
    if r.sol_error:
        return violation("get_solution_crash", str(r.sol_error), labels, site=r.sol_error.site, facts=facts)
    routes = r.solution.get("walks" if cyc else "paths")
    routes = [rt for rt in (routes or []) if rt]
    for rt in routes:
        bad = check_route(G, rt, starts, ends, simple=not cyc)
        if bad:
            return violation("route:" + bad[0], bad[1], labels, facts=facts)
    covered = set()
    for rt in routes:
        covered |= set(rt) if node_mode else set(zip(rt[:-1], rt[1:]))
    miss = [x for x in required if x not in covered]
    if miss:
        return violation("not_covered", f"{miss} lie on no returned route {routes}", labels, facts=facts)
    um = spec.unmet(routes)
    if um is not None:
        return violation("constraint_not_covered", f"constraint {um} (coverage {coverage}{' by length' if spec.by_length else ''}) in no single route of {routes}", labels, facts=facts)
    n = len(routes)
    if cls in MIN_CLASSES:
        if n < w:
            return inconclusive(f"oracle disagreement: valid cover with {n} routes below the reference minimum {w}", labels)
        if exact_constrained and n != wc and count_artifact(case, tier, n):
            return inconclusive("solver artefact: number of routes changes with HiGHS presolve off", labels)
        if exact_constrained and n != wc:
            return violation("cover_not_minimum", f"{cls} returned {n} routes but the minimum is {wc}; routes={routes}", labels, facts=facts)
    else:
        if k is not None and exact_constrained and k < wc:
            return inconclusive(f"oracle disagreement: {cls}(k={k}) solved below the reference minimum {wc}", labels)
    labels.add(f"width:{min(w, 4)}")
    if w != w_all:
        labels.add("ignore_changes_width")
    nontrivial = w >= 2 or w != w_all
    return ok(labels, nontrivial, facts)
