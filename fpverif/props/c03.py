"""C03 - MinFlowDecomp (DAG) always finds a decomposition and it has the fewest paths."""
from collections import Counter

from hypothesis import strategies as st

from .. import gen
from ..common import TOL, graph_from_json, inconclusive, invalid_config, ok, violation
from ..models import ConstraintSpec, count_artifact, flow_of, run_model, solver_artifact, timed_out
from ..oracle import bf
from ..oracle.routes import all_st_paths, check_route

ID = "C03"
LEVEL = "exploration"
TECHNIQUE = "property-based testing (Hypothesis): planted conserving DAG flows; exhaustive exact-rational minimality oracle + planted-witness bound"
LEVEL_TEXT = (
    "Generated-input exploration of MinFlowDecomp on planted strictly positive conserving flows (witness decomposition "
    "known by construction): solve() must succeed, the answer must decompose the flow, use <= the planted number of paths, "
    "and on instances with <= 14 source-sink paths an exhaustive search over all path subsets with exact rational "
    "arithmetic proves that no decomposition with fewer paths (honouring constraints, ignoring ignored elements) exists."
)
LEVEL_NOTE = "Trusted: CPython fractions, networkx, Hypothesis; HiGHS only for int-weight sub-problems on linearly dependent path sets."
RULE = (
    "cases = planted superpositions of 1-4 weighted source->sink paths on DAGs (<= 5/7 nodes, incl. single edge, stars, "
    "several sources/sinks), int or dyadic float weights, edge or node origin (nodes lacking the attribute allowed), ignored "
    "elements, subpath constraints drawn from planted paths (coverage 1/0.75/0.5/0.34), lower-bound options "
    "(min-gen-set (+partition constraints), subgraph scanning with window 2-3, guessed weights). "
    "non-trivial = solved AND (optimum >= 2 or optimum == number of edges or constraints/ignored elements present); distinct = case hash."
)
ASSUMPTIONS = ["minimality is proven exhaustively only when the DAG has <= 14 source-sink paths; above that only the planted-witness bound applies"]
BUDGET = {"quick": {"examples": 8000, "deadline_s": 90}, "thorough": {"examples": 30000, "deadline_s": 900}}


@st.composite
def strategy_(draw, tier):
    big = tier == "thorough"
    case = draw(gen.model_cases(classes=["MinFlowDecomp"], max_nodes=7 if big else 5, noise=False, p_opts=0, p_se=0, p_constr=2, p_ignore=4, p_node=4, p_hub=3))
    opts = {}
    mode = draw(st.sampled_from(["default", "default", "mgs", "scan", "guess", "nogreedy", "mix"]))
    if mode in ("mgs", "mix"):
        opts["use_min_gen_set_lowerbound"] = True
        if draw(st.booleans()):
            opts["use_min_gen_set_lowerbound_partition_constraints"] = True
            opts["use_min_gen_set_lowerbound_partition_constraints_min_constraint_len"] = draw(st.sampled_from([1, 2]))
        if draw(st.booleans()):
            opts["min_gen_set_remove_sums_of_two"] = False
    if mode in ("scan", "mix"):
        opts["use_subgraph_scanning_lowerbound"] = True
        case["meta"]["scan_window"] = draw(st.sampled_from([[2, 1], [3, 2], [3, 1]]))
    if mode in ("guess", "mix"):
        opts["optimize_with_guessed_weights"] = True
    if mode == "nogreedy" or (mode == "mix" and draw(st.booleans())):
        opts["optimize_with_greedy"] = False
    if opts:
        case["kw"]["optimization_options"] = opts
    case["meta"]["lb_mode"] = mode
    kw = case["kw"]
    how = draw(st.sampled_from([1, 0, 2, 2, 1, 2]))
    if kw.get("subpath_constraints") and kw.get("flow_attr_origin") != "node" and "length_attr" not in kw and how <= 1:
        lens = draw(st.lists(st.sampled_from([3, 1, 0, 2, 4, 0]), min_size=len(case["graph"]["edges"]), max_size=len(case["graph"]["edges"])))
        for e, l in zip(case["graph"]["edges"], lens):
            e[2]["len"] = l
        kw["length_attr"] = "len"
        if how == 0:
            # coverage measured in edge length instead of edge count
            kw["subpath_constraints_coverage_length"] = kw.pop("subpath_constraints_coverage", 1.0)
        # how == 1: a length attribute is named but coverage stays count-based (the lengths must not matter)
    return case


def strategy(tier):
    return strategy_(tier)


def constraint_predicate(routes, constraints, coverage, node_mode, lengths=None):
    """predicate(sub) for bf: every constraint is covered to >= coverage (edge count, or edge length) in ONE chosen route."""
    if not constraints:
        return None
    sets = []
    for r in routes:
        sets.append(set(r) if node_mode else set(zip(r[:-1], r[1:])))
    cons = [[(x if node_mode else tuple(x)) for x in c] for c in constraints]
    ln = (lambda x: lengths.get(x, 1)) if lengths is not None else (lambda x: 1)

    def pred(sub):
        for c in cons:
            need = sum(ln(x) for x in c) * coverage
            if not any(sum(ln(x) for x in c if x in sets[i]) >= need - 1e-9 for i in sub):
                return False
        return True

    return pred


def _planted_is_witness(G, planted, f_req, spec, node_mode, wt):
    """Re-validate the generator's witness (shrunk replay files may carry a stale one)."""
    try:
        acc = Counter()
        for p, w in planted:
            if check_route(G, list(p), (), (), simple=True) or w < 0:
                return False
            for el in p if node_mode else zip(p[:-1], p[1:]):
                acc[el] += w
        if any(abs(acc.get(el, 0) - fe) > 1e-9 for el, fe in f_req.items()):
            return False
        return spec.unmet([list(p) for p, _w in planted]) is None
    except Exception:
        return False


def run_case(case, tier="quick"):
    import flowpaths as fp

    try:
        if case["cls"] != "MinFlowDecomp":
            return invalid_config("class")
        kw = case.get("kw", {})
        G = graph_from_json(case["graph"])
        meta = case.get("meta") or {}
    except Exception as e:
        return invalid_config(f"malformed case {e!r}")
    node_mode = kw.get("flow_attr_origin", "edge") == "node"
    wt = kw.get("weight_type", "float")
    labels = {f"wt:{wt}", "node" if node_mode else "edge", f"lb:{meta.get('lb_mode', 'default')}"}
    declared = {n for n, _d in case["graph"].get("nodes", [])}
    if any(u not in declared or v not in declared for u, v, _d in case["graph"].get("edges", [])):
        return invalid_config("edge endpoint missing from the node list")
    if not node_mode and any(G.degree(v) == 0 for v in G):
        return invalid_config("isolated node in edge mode (single-node routes: F19 class, generated separately)")
    if not node_mode and any("flow" not in d for _u, _v, d in G.edges(data=True)):
        return invalid_config("edge without flow")
    f = flow_of(case, G)
    ign = kw.get("elements_to_ignore", [])
    ignored = set(ign) if node_mode else {tuple(e) for e in ign}
    f_req = {el: v for el, v in f.items() if el not in ignored}
    if not f_req:
        return invalid_config("no non-ignored weighted element")
    spec = ConstraintSpec(case, G)
    constraints, coverage = spec.constraints, spec.coverage
    lengths = spec.lengths
    if spec.by_length:
        labels.add("length_coverage")
    elif constraints and case["kw"].get("length_attr"):
        labels.add("length_attr_but_count_coverage")
    if constraints:
        labels.add("constraints")
    if ignored:
        labels.add("ignored")
    if any("flow" not in d for _n, d in G.nodes(data=True)) and node_mode:
        labels.add("missing_attr")
    # subgraph-scanning constants are class attributes (window 20/18): shrink them so the scan runs on small graphs
    saved = (fp.MinFlowDecomp.subgraph_lowerbound_size, fp.MinFlowDecomp.subgraph_lowerbound_shift)
    try:
        if meta.get("scan_window"):
            fp.MinFlowDecomp.subgraph_lowerbound_size, fp.MinFlowDecomp.subgraph_lowerbound_shift = meta["scan_window"]
        try:
            r = run_model(case, tier)
        except Exception as e:
            return invalid_config(f"harness could not build the call: {e!r}")
    finally:
        fp.MinFlowDecomp.subgraph_lowerbound_size, fp.MinFlowDecomp.subgraph_lowerbound_shift = saved
    facts = {"n_edges": G.number_of_edges(), "node_mode": node_mode, "has_ignored": bool(ignored)}
    if meta.get("scan_window") and (r.ctor_error or r.solve_error or not r.solved):
        # The reduced scanning window is a harness artefact (class constants 20/18 replaced by 2-3).  A failure is
        # only attributed to the library if it also occurs with the constants untouched.
        r2 = run_model(case, tier)
        if not (r2.ctor_error or r2.solve_error) and r2.solved:
            return inconclusive("failure only with the harness-reduced scanning window", labels)
        r = r2
    witness = bool(meta.get("planted")) and _planted_is_witness(G, meta["planted"], f_req, spec, node_mode, wt)
    if not witness and (r.ctor_error or r.solve_error or not r.solved):
        return invalid_config("no valid planted witness in the case: decomposability unknown")
    if r.ctor_error:
        return violation("ctor_crash", f"well-formed input rejected: {r.ctor_error}", labels, site=r.ctor_error.site, facts=facts)
    if r.solve_error:
        return violation("solve_crash", f"solve() raised {r.solve_error}", labels, site=r.solve_error.site, facts=facts)
    if not r.solved:
        if timed_out(r):
            return inconclusive("time_limit", labels)
        if solver_artifact(case, tier, r):
            return inconclusive("solver artefact: solved only with HiGHS presolve off", labels)
        return violation("unsolved", f"MinFlowDecomp.solve() did not succeed although a decomposition with {meta.get('k0')} paths exists (planted)", labels, facts=facts)
    if r.sol_error:
        return violation("get_solution_crash", str(r.sol_error), labels, site=r.sol_error.site)
    paths, weights = r.solution.get("paths"), r.solution.get("weights")
    if paths is None or weights is None or len(paths) != len(weights):
        return violation("solution_shape", f"{r.solution!r}"[:300], labels)
    for p in paths:
        bad = check_route(G, p, (), (), simple=True)
        if bad:
            return violation("route:" + bad[0], bad[1], labels)
    # decomposition validity (non-ignored part)
    acc = Counter()
    for p, w in zip(paths, weights):
        for el in p if node_mode else zip(p[:-1], p[1:]):
            acc[el] += w
    scale = max([abs(v) for v in f_req.values()] + [1])
    for el, fe in f_req.items():
        if (wt == "int" and acc.get(el, 0) != fe) or (wt != "int" and abs(acc.get(el, 0) - fe) > TOL * (1 + scale)):
            return violation("flow_mismatch", f"{el}: flow {fe} vs {acc.get(el, 0)}; paths={paths} weights={weights}", labels, facts=facts)
    if any(w < -TOL for w in weights):
        return violation("negative_weight", f"{weights}", labels)
    # constraints honoured
    for c in constraints:
        if not any(spec.met_by(c, spec.elements_of(p_)) for p_ in paths):
            return violation("constraint_not_covered", f"constraint {c} (coverage {coverage}{' by length' if lengths else ''}) in no single path of {paths}", labels, facts=facts)
    n = len(paths)
    facts["reported"] = n
    # (i) planted witness bound
    k0 = meta.get("k0")
    planted = meta.get("planted")
    if witness:
        distinct_planted = len({tuple(p) for p, _w in planted})
        if n > distinct_planted and count_artifact(case, tier, n):
            return inconclusive("solver artefact: number of paths changes with HiGHS presolve off", labels)
        if n > distinct_planted:
            return violation(
                "not_minimum_vs_planted",
                f"returned {n} paths but the planted decomposition has {distinct_planted}: {planted}",
                labels,
                facts=facts,
            )
    # (ii) exhaustive minimality
    all_paths = all_st_paths(G, limit=14)
    exhaustive = False
    if all_paths is not None and n >= 1:
        route_mults = [Counter(p) if node_mode else Counter(zip(p[:-1], p[1:])) for p in all_paths]
        pred = spec.predicate([spec.elements_of(p_) for p_ in all_paths])
        found, wit = bf.exists_fd_with_at_most(route_mults, n - 1, f_req, wt, pred)
        exhaustive = True
        if found and count_artifact(case, tier, n):
            return inconclusive("solver artefact: number of paths changes with HiGHS presolve off", labels)
        if found:
            sub, ws = wit
            return violation(
                "not_minimum",
                f"returned {n} paths {paths}; but {len(sub)} suffice: {[all_paths[i] for i in sub]} weights {ws}",
                labels,
                facts=facts,
            )
        labels.add("minimality:exhaustive")
    else:
        labels.add("minimality:planted_only")
    labels.add(f"optimum:{min(n, 4)}")
    if n == G.number_of_edges():
        labels.add("optimum==edges")
    nontrivial = n >= 2 or n == G.number_of_edges() or bool(constraints) or bool(ignored)
    return ok(labels, nontrivial, facts)
