"""C10 - constraints, ignored elements and extra start/end nodes behave as documented (containment + metamorphic relations)."""
import copy

import networkx as nx
from hypothesis import strategies as st

from .. import gen
from ..common import TOL, graph_from_json, inconclusive, invalid_config, ok, violation
from ..models import COVER_CLASSES, CYC_CLASSES, MIN_CLASSES, ROUTE_KEY, CONSTRAINT_KEY, ConstraintSpec, run_model, rerun_presolve_off, timed_out
from ..oracle.routes import check_route

ID = "C10"
LEVEL = "exploration"
TECHNIQUE = "property-based testing (Hypothesis): containment predicate on every solved model + metamorphic relations between a generated input and a derived input (added constraint, met constraint, ignore vs scale 0, declared existing source/sink, extra start/end, extra ignored element, length coverage)"
LEVEL_TEXT = (
    "Generated-input exploration with metamorphic oracles over all classes accepting the feature: (i) in every solved model each "
    "constraint is contained to the requested edge- or length-coverage in ONE returned route; (ii) adding a constraint never improves the "
    "objective and adding one already met by the returned solution changes nothing; (iii) elements_to_ignore=[e] and error_scaling={e:0} give "
    "the same solved status and objective; (iv) declaring an existing source/sink as additional start/end changes nothing; (v) an extra "
    "start/end or an extra ignored element never worsens the objective / never destroys feasibility.  The exact optimum under constraints / "
    "ignores / starts-ends is additionally established by the exhaustive oracles of C03, C04, C07, C08 and C09, whose generators include these features."
)
LEVEL_NOTE = "Trusted: HiGHS, CPython, Hypothesis. Metamorphic relations compare two runs of the library; ground truth for each feature comes from the exhaustive oracles cited."
RULE = (
    "case = model_cases() input + relation in {add_constraint, add_met_constraint, ignore_equiv_scale0, declare_existing_source_sink, "
    "extra_start_end, extra_ignore, length_coverage}. non-trivial = both runs solved AND the feature is present in the derived input AND "
    "(the objective or the returned routes differ between the two runs, or a constraint with coverage < 1 / a gap is present); distinct = case hash."
)
ASSUMPTIONS = ["constraints are drawn from planted routes or from returned routes, hence admissible"]
BUDGET = {"quick": {"examples": 700, "deadline_s": 90}, "thorough": {"examples": 14000, "deadline_s": 900}}
RELATIONS = ["add_constraint", "add_met_constraint", "ignore_equiv_scale0", "declare_existing_source_sink", "extra_start_end", "extra_ignore", "length_coverage", "length_coverage"]
INEXACT = ("kLeastAbsErrors", "kLeastAbsErrorsCycles", "kMinPathError", "kMinPathErrorCycles")


@st.composite
def strategy_(draw, tier):
    big = tier == "thorough"
    rel = draw(st.sampled_from(RELATIONS))
    classes = None
    if rel == "ignore_equiv_scale0":
        classes = list(INEXACT) + ["kLeastAbsErrorsCycles", "kMinPathErrorCycles"]
    elif rel in ("declare_existing_source_sink", "extra_start_end"):
        classes = sorted(gen.HAS_STARTS_ENDS)
    elif rel == "length_coverage":
        classes = ["kPathCover", "MinPathCover", "kFlowDecomp", "MinFlowDecomp", "kLeastAbsErrors", "kMinPathError", "kPathCover", "MinPathCover"]
    lc = rel == "length_coverage"
    case = draw(gen.model_cases(classes=classes, max_nodes=6 if big else 5, p_opts=0, p_constr=1 if lc else 3, p_ignore=5, p_se=5, p_node=0 if lc else 5, k_slack=1, p_len=1 if lc else 5, p_wild=3 if lc else 0))
    case["relation"] = rel
    case["pick"] = draw(st.lists(st.integers(0, 30), min_size=6, max_size=6))
    return case


def strategy(tier):
    return strategy_(tier)


def _objective(cls, r):
    if not r.solved:
        return None
    if cls in MIN_CLASSES:
        return len([x for x in r.solution[ROUTE_KEY[cls]] if x])
    if cls in INEXACT:
        return float(r.objective)
    return "solved"


def _containment(case, r, G, length_attr=None):
    """(i): every constraint of the case is contained to >= coverage (edge count or length) in one returned route."""
    spec = ConstraintSpec(case, G)
    if not spec:
        return None
    routes = [x for x in r.solution[ROUTE_KEY[case["cls"]]] if x]
    um = spec.unmet(routes)
    if um is not None:
        return f"constraint {um} (coverage {spec.coverage}{' by length' if spec.by_length else ''}) is contained in no single returned route {routes}"
    # cover models: every non-ignored element must still be covered, whatever the constraints say
    if case["cls"] in COVER_CLASSES:
        kw = case["kw"]
        ign = kw.get("elements_to_ignore", [])
        ignored = set(ign) if spec.node_mode else {tuple(e) for e in ign}
        required = [v for v in G.nodes() if v not in ignored] if spec.node_mode else [e for e in G.edges() if e not in ignored]
        covered = set()
        for rt in routes:
            covered |= spec.elements_of(rt)
        miss = [x for x in required if x not in covered]
        if miss:
            return f"cover model leaves {miss} uncovered (routes {routes})"
    return None


def _better(cls, a, b):
    """a strictly better (smaller) than b"""
    if isinstance(a, float) or isinstance(b, float):
        return a < b - TOL * (1 + abs(b)) * 10
    if isinstance(a, int) and isinstance(b, int):
        return a < b
    return False


def _same(a, b):
    if a is None or b is None:
        return a is b
    if isinstance(a, float) or isinstance(b, float):
        return abs(a - b) <= TOL * (1 + abs(b)) * 10
    return a == b


def run_case(case, tier="quick"):
    try:
        cls = case["cls"]
        rel = case["relation"]
        pick = list(case.get("pick") or [0] * 6)
        kw = case["kw"]
        G = graph_from_json(case["graph"])
        declared = {n for n, _d in case["graph"].get("nodes", [])}
        if any(u not in declared or v not in declared for u, v, _d in case["graph"].get("edges", [])):
            return invalid_config("edge endpoint missing from node list")
        cyc = cls in CYC_CLASSES
        node_mode = kw.get("flow_attr_origin", kw.get("cover_type", "edge")) == "node"
        ckey = CONSTRAINT_KEY[cls]
        if rel not in RELATIONS:
            return invalid_config("relation")
    except Exception as e:
        return invalid_config(f"malformed case {e!r}")
    labels = {cls, f"rel:{rel}"}
    base = copy.deepcopy(case)
    if rel == "length_coverage":
        # give every edge a small integer length and turn the edge coverage into a length coverage
        if node_mode or not base["kw"].get(ckey):
            return invalid_config("length coverage needs edge-mode constraints")
        if base["kw"].get("subpath_constraints_coverage_length") is None:
            for i, e in enumerate(base["graph"]["edges"]):
                e[2]["len"] = 1 + (pick[i % len(pick)] + i) % 4
            base["kw"]["length_attr"] = "len"
            base["kw"].pop("subpath_constraints_coverage", None)
            base["kw"]["subpath_constraints_coverage_length"] = [1.0, 0.75, 0.5, 0.34][pick[0] % 4]
        G = graph_from_json(base["graph"])
    try:
        rb = run_model(base, tier)
    except Exception as e:
        return invalid_config(f"harness could not build the call: {e!r}")
    if rb.crashed:
        c = rb.crashed
        return inconclusive(f"base run crashed: {c.exc_type}@{c.site}", labels)
    if timed_out(rb):
        return inconclusive("time_limit", labels)
    def _f19(c_, G_):
        k_ = c_["kw"]
        nm = k_.get("flow_attr_origin", k_.get("cover_type", "edge")) == "node"
        sp = any((G_.in_degree(v) == 0 or v in k_.get("additional_starts", [])) and (G_.out_degree(v) == 0 or v in k_.get("additional_ends", [])) for v in G_)
        return {"single_node_route": bool(nm and sp), "node_mode": nm}

    if rb.solved:
        bad = _containment(base, rb, G, "len")
        if bad:
            return violation("constraint_not_contained", bad, labels, facts=_f19(base, G))
    if rel == "length_coverage":
        labels.add("solved" if rb.solved else "unsolved")
        return ok(labels, bool(rb.solved))
    # ---- derived input
    der = copy.deepcopy(base)
    dk = der["kw"]
    expect = None
    elems = [n for n, _d in case["graph"]["nodes"]] if node_mode else [[u, v] for u, v, _d in case["graph"]["edges"]]
    srcs = [v for v in G if G.in_degree(v) == 0]
    snks = [v for v in G if G.out_degree(v) == 0]
    if rel in ("add_constraint", "add_met_constraint"):
        if rel == "add_met_constraint":
            if not rb.solved:
                return ok(labels | {"base_unsolved"}, False)
            routes = [x for x in rb.solution[ROUTE_KEY[cls]] if len(x) >= (1 if node_mode else 2)]
            if not routes:
                return ok(labels | {"no_route"}, False)
            rt = routes[pick[0] % len(routes)]
            expect = "same"
        else:
            planted = (case.get("meta") or {}).get("planted") or []
            planted = [p for p, _w in planted if len(p) >= (1 if node_mode else 2) and check_route(G, list(p), kw.get("additional_starts", []), kw.get("additional_ends", []), simple=not cyc) is None]
            if not planted:
                return invalid_config("no valid planted route to draw a constraint from")
            rt = planted[pick[0] % len(planted)]
            expect = "not_better"
        seq = list(rt) if node_mode else [list(e) for e in zip(rt[:-1], rt[1:])]
        if cyc:
            seq = [list(x) if isinstance(x, (list, tuple)) else x for x in dict.fromkeys(tuple(x) if isinstance(x, list) else x for x in seq)]
        i = pick[1] % len(seq)
        j = i + 1 + pick[2] % (len(seq) - i)
        sub = seq[i:j]
        if len(sub) >= 3 and pick[3] % 2 == 0:
            del sub[1]  # gap
            labels.add("gapped")
        cov_key = "subset_constraints_coverage" if cyc else "subpath_constraints_coverage"
        if dk.get(cov_key, 1.0) != 1.0 and rel == "add_met_constraint":
            pass  # the met constraint is fully contained, so any coverage is satisfied
        dk[ckey] = list(dk.get(ckey, [])) + [sub]
    elif rel == "ignore_equiv_scale0":
        e = elems[pick[0] % len(elems)]
        if pick[3] % 2 == 0:
            # prefer the heaviest element: the one a weight-based selection (percentile) would trust
            wts = {repr(n_): d_.get("flow", 0) for n_, d_ in case["graph"]["nodes"]} if node_mode else {repr([u_, v_]): d_.get("flow", 0) for u_, v_, d_ in case["graph"]["edges"]}
            e = max(elems, key=lambda x_: (wts.get(repr(x_), 0), repr(x_)))
        a = copy.deepcopy(base)
        a["kw"]["elements_to_ignore"] = list(a["kw"].get("elements_to_ignore", [])) + ([e] if e not in a["kw"].get("elements_to_ignore", []) else [])
        a["kw"]["error_scaling"] = [x for x in a["kw"].get("error_scaling", []) if x[0] != e]
        b = copy.deepcopy(base)
        b["kw"]["elements_to_ignore"] = [x for x in b["kw"].get("elements_to_ignore", []) if x != e]
        b["kw"]["error_scaling"] = [x for x in b["kw"].get("error_scaling", []) if x[0] != e] + [[e, 0]]
        if cls in ("kLeastAbsErrorsCycles", "kMinPathErrorCycles") and not node_mode and pick[1] % 3 != 0:
            # edges selected for safety by weight percentile: an ignored element and an element with scale 0 must both drop out
            # of that selection (whatever the selection does to the optimum, it must do the same on both sides)
            pct = [25, 50, 75][pick[2] % 3]
            a["kw"]["trusted_edges_for_safety_percentile"] = pct
            b["kw"]["trusted_edges_for_safety_percentile"] = pct
            labels.add("trusted_percentile")
        base, der, expect = a, b, "same"
        try:
            rb = run_model(base, tier)
        except Exception as ex:
            return invalid_config(f"harness could not build the call: {ex!r}")
        if rb.crashed:
            return inconclusive(f"base run crashed: {rb.crashed.exc_type}@{rb.crashed.site}", labels)
    elif rel == "declare_existing_source_sink":
        if srcs and pick[0] % 2 == 0:
            dk["additional_starts"] = sorted(set(dk.get("additional_starts", [])) | {srcs[pick[1] % len(srcs)]})
        if snks and (pick[0] % 2 == 1 or pick[2] % 2 == 0):
            dk["additional_ends"] = sorted(set(dk.get("additional_ends", [])) | {snks[pick[3] % len(snks)]})
        expect = "same"
    elif rel == "extra_start_end":
        inner_s = [v for v in G if v not in srcs and v not in dk.get("additional_starts", [])]
        inner_e = [v for v in G if v not in snks and v not in dk.get("additional_ends", [])]
        if pick[0] % 2 == 0 and inner_s:
            dk["additional_starts"] = sorted(set(dk.get("additional_starts", [])) | {inner_s[pick[1] % len(inner_s)]})
        elif inner_e:
            dk["additional_ends"] = sorted(set(dk.get("additional_ends", [])) | {inner_e[pick[1] % len(inner_e)]})
        else:
            return ok(labels | {"no_inner_node"}, False)
        expect = "not_worse"
    elif rel == "extra_ignore":
        sc0 = [e_ for e_, s_ in (dk.get("error_scaling") or []) if s_ == 0]  # scale 0 = already ignored
        wless = [n_ for n_, d_ in case["graph"]["nodes"] if "flow" not in d_] if (node_mode and cls not in COVER_CLASSES) else []  # attribute-less nodes are ignored already
        cand = [e for e in elems if e not in dk.get("elements_to_ignore", []) and e not in sc0 and e not in wless]
        if len(cand) <= 1:
            return ok(labels | {"nothing_to_ignore"}, False)
        dk["elements_to_ignore"] = list(dk.get("elements_to_ignore", [])) + [cand[pick[0] % len(cand)]]
        expect = "not_worse"
    try:
        rd = run_model(der, tier)
    except Exception as e:
        return invalid_config(f"harness could not build the derived call: {e!r}")
    if rd.crashed:
        c = rd.crashed
        return violation("derived_crash", f"{rel}: derived input raised {c} although the base input is handled (solved={rb.solved})", labels, site=c.site)
    if timed_out(rd) or timed_out(rb):
        return inconclusive("time_limit", labels)
    Gd = graph_from_json(der["graph"])
    if rd.solved:
        bad = _containment(der, rd, Gd)
        if bad:
            return violation("constraint_not_contained", bad, labels, facts=_f19(der, Gd))
    ob, od = _objective(cls, rb), _objective(cls, rd)
    facts = {"base": ob, "derived": od, "relation": rel, "node_mode": node_mode}
    verdict = None
    if expect == "same":
        if bool(rb.solved) != bool(rd.solved) or (rb.solved and not _same(ob, od)):
            verdict = f"{rel}: expected identical results, base solved={rb.solved} objective={ob}, derived solved={rd.solved} objective={od}"
    elif expect == "not_better":  # derived is more constrained
        if rd.solved and not rb.solved:
            verdict = f"{rel}: the more constrained input is solved but the base input is not"
        elif rd.solved and rb.solved and _better(cls, od, ob):
            verdict = f"{rel}: adding a constraint improved the objective from {ob} to {od}"
    elif expect == "not_worse":  # derived is a relaxation
        if rb.solved and not rd.solved:
            verdict = f"{rel}: the relaxed input (more admissible routes / fewer requirements) is not solved while the base input is (objective {ob})"
        elif rd.solved and rb.solved and _better(cls, ob, od):
            verdict = f"{rel}: relaxing the input worsened the objective from {ob} to {od}"
    if verdict:
        rb2, rd2 = rerun_presolve_off(base, tier), rerun_presolve_off(der, tier)
        if not rb2.crashed and not rd2.crashed and (bool(rb2.solved) != bool(rb.solved) or bool(rd2.solved) != bool(rd.solved) or not _same(_objective(cls, rb2), ob) or not _same(_objective(cls, rd2), od)):
            return inconclusive("solver artefact: results change with HiGHS presolve off", labels)
        return violation("relation_violated", verdict + f"; derived kw = {der['kw']}", labels, facts=facts)
    changed = not _same(ob, od) or (rb.solved and rd.solved and rb.solution.get(ROUTE_KEY[cls]) != rd.solution.get(ROUTE_KEY[cls]))
    labels.add("both_solved" if rb.solved and rd.solved else "some_unsolved")
    if changed:
        labels.add("feature_changes_result")
    nontrivial = bool(rb.solved and rd.solved and (changed or "gapped" in labels or rel in ("add_met_constraint", "ignore_equiv_scale0")))
    return ok(labels, nontrivial, facts)
