"""C17 - substrate queries (reachability, antichain, bottleneck peeling) match the graph.  Stateful."""
import itertools
from collections import Counter

import networkx as nx
from hypothesis import strategies as st
from hypothesis.stateful import RuleBasedStateMachine, initialize, rule

from .. import gen
from ..common import Crash, graph_from_json, guarded, invalid_config, ok, violation
from ..oracle.routes import all_st_paths
from ..oracle.width import dilworth

ID = "C17"
LEVEL = "exploration"
TECHNIQUE = "property-based testing (Hypothesis RuleBasedStateMachine): query histories on generated stDAG/stDiGraph objects against BFS / brute-force reference answers"
LEVEL_TEXT = (
    "Model-based stateful exploration: a rule-based machine builds one stDAG or stDiGraph per run from a generated graph and "
    "issues drawn sequences of reachability, SCC-edge, per-edge reachable maximum, width (with/without ignored edges, cache warm "
    "or cold), weighted maximum antichain (zero / unit / 10^6 weights) and bottleneck-peeling queries; every answer is compared "
    "with a direct graph search or brute force at the time it is given, so order and repetition effects are covered."
)
LEVEL_NOTE = "Trusted: networkx traversal primitives (descendants/ancestors/SCC), CPython, Hypothesis. Graphs <= 6/8 nodes; antichain brute force <= 14 weighted edges."
RULE = (
    "case = (graph kind dag|digraph, graph with planted conserving flow on 'flow', op list); ops drawn by the state machine: "
    "reach/reaching(node), reach_edges/reaching_edges(node, stDAG), scc_edge(edge), maxreach, width(ignored subset), width_bridge(some of several parallel inter-SCC edges ignored), antichain(weight kind), peel, bottleneck. "
    "non-trivial = >= 6 queries incl. a repeated one AND (digraph with >= 2 non-trivial SCCs or an antichain of size >= 2 "
    "or a peel with >= 2 paths); distinct = case hash."
)
ASSUMPTIONS = ["graphs have no isolated nodes; weights are integers (the library's own callers use integer weights)"]
BUDGET = {"quick": {"examples": 0, "deadline_s": 80}, "thorough": {"examples": 0, "deadline_s": 600}}
MACHINE_EXAMPLES = {"quick": 8000, "thorough": 100000}
STEP_COUNT = {"quick": 14, "thorough": 24}


def strategy(tier):  # not used (machine only) but kept for interface completeness
    return st.just({"kind": "dag", "graph": {"nodes": [["a", {}], ["b", {}]], "edges": [["a", "b", {"flow": 1}]]}, "ops": [["reach", 0]]})


# ------------------------------------------------------------------------------------------ reference
def _reach(H, v):
    return {v} | nx.descendants(H, v)


def _reaching(H, v):
    return {v} | nx.ancestors(H, v)


def max_weight_antichain(H, weights):
    """Brute force: maximum total weight of pairwise unreachable edges (weights > 0 only)."""
    es = [e for e, w in weights.items() if w > 0 and H.has_edge(*e)]
    if len(es) > 14:
        return None
    desc = {v: _reach(H, v) for v in {e[1] for e in es}}
    comp = {}
    for a, b in itertools.combinations(es, 2):
        comp[(a, b)] = comp[(b, a)] = (b[0] in desc[a[1]]) or (a[0] in desc[b[1]])
    best = 0
    n = len(es)
    order = sorted(es, key=lambda e: -weights[e])

    def rec(i, chosen, tot):
        nonlocal best
        if tot > best:
            best = tot
        if i == n:
            return
        if tot + sum(weights[e] for e in order[i:]) <= best:
            return
        e = order[i]
        if all(not comp[(e, c)] for c in chosen):
            rec(i + 1, chosen + [e], tot + weights[e])
        rec(i + 1, chosen, tot)

    rec(0, [], 0)
    return best


class Interp:
    def __init__(self, case):
        import flowpaths as fp

        self.case = case
        self.kind = case["kind"]
        self.G = graph_from_json(case["graph"])
        if any(self.G.degree(v) == 0 for v in self.G) or self.G.number_of_edges() == 0:
            raise ValueError("isolated node")
        self.starts = [v for v in case.get("starts", []) if v in self.G]
        self.ends = [v for v in case.get("ends", []) if v in self.G]
        self.st = guarded(fp.stDAG if self.kind == "dag" else fp.stDiGraph, self.G, additional_starts=list(self.starts), additional_ends=list(self.ends))
        self.H = nx.DiGraph(self.st)  # plain copy of the augmented graph for reference searches
        self.nodes = sorted(self.H.nodes(), key=str)
        self.edges = sorted(self.H.edges(), key=str)
        self.base_edges = sorted(self.G.edges(), key=str)
        self.bad = None
        self.flags = Counter()
        self.seen_ops = set()

    def fail(self, kind, detail):
        self.bad = (kind, detail)

    def apply(self, op):
        name = op[0]
        key = repr(op)
        if key in self.seen_ops:
            self.flags["repeat"] += 1
        self.seen_ops.add(key)
        self.flags["queries"] += 1
        stg, H = self.st, self.H
        if name in ("reach", "reaching"):
            v = self.nodes[op[1] % len(self.nodes)]
            if self.kind == "dag":
                got = stg.reachable_nodes_from[v] if name == "reach" else stg.nodes_reaching[v]
            else:
                got = stg.nodes_reachable(v) if name == "reach" else stg.nodes_reaching(v)
            want = _reach(H, v) if name == "reach" else _reaching(H, v)
            if set(got) != want:
                self.fail(f"{name}_wrong", f"{name}({v!r}) = {sorted(map(str, got))}, BFS says {sorted(map(str, want))}")
        elif name in ("reach_edges", "reaching_edges"):
            # stDAG only: edges reachable from a node / edges from which the node is reached
            if self.kind != "dag":
                return
            v = self.nodes[op[1] % len(self.nodes)]
            if name == "reach_edges":
                got = stg.reachable_edges_from[v]
                rs = _reach(H, v)
                want = {(x, y) for (x, y) in H.edges() if x in rs}
            else:
                got = stg.reachable_edges_rev_from[v]
                rs = _reaching(H, v)
                want = {(x, y) for (x, y) in H.edges() if y in rs}
            if set(got) != want:
                self.fail(f"{name}_wrong", f"{name}({v!r}) = {sorted(map(str, got))}, search says {sorted(map(str, want))}")
        elif name == "scc_edge":
            if self.kind != "digraph":
                return
            u, v = self.edges[op[1] % len(self.edges)]
            got = stg.is_scc_edge(u, v)
            want = u in _reach(H, v)
            if bool(got) != want:
                self.fail("scc_edge_wrong", f"is_scc_edge({u!r},{v!r}) = {got}, expected {want}")
        elif name == "maxreach":
            if self.kind != "digraph":
                return
            got = stg.compute_edge_max_reachable_value("flow")
            w = {(u, v): float(d.get("flow", 0.0)) for u, v, d in H.edges(data=True)}
            for (u, v) in H.edges():
                after = _reach(H, v)
                before = _reaching(H, u)
                want = max([w[(u, v)]] + [w[(a, b)] for (a, b) in H.edges() if a in after or b in before])
                if (u, v) not in got or abs(got[(u, v)] - want) > 1e-9:
                    self.fail("maxreach_wrong", f"edge ({u!r},{v!r}): got {got.get((u, v))}, expected {want}")
                    return
            if set(got.keys()) != set(H.edges()):
                self.fail("maxreach_wrong", "result keys differ from the edge set")
        elif name == "width_bridge":
            # ignore some, but not all, of several parallel edges between the same two strongly connected components
            scc = {}
            for ci, comp in enumerate(nx.strongly_connected_components(self.G)):
                for x in comp:
                    scc[x] = ci
            groups = {}
            for idx, (u, v) in enumerate(self.base_edges):
                if scc[u] != scc[v]:
                    groups.setdefault((scc[u], scc[v]), []).append(idx)
            groups = [g for _k, g in sorted(groups.items()) if len(g) >= 2]
            if not groups:
                return
            g = groups[op[1] % len(groups)]
            pick = [i for j, i in enumerate(g) if (op[2] >> j) & 1]
            if not pick or len(pick) == len(g):
                pick = g[:1]
            self.flags["parallel_bridge_ignored"] += 1
            self.apply(["width", pick, "explicit"])
        elif name == "width":
            ign = [self.base_edges[i % len(self.base_edges)] for i in op[1]]
            if len(set(ign)) >= len(self.base_edges):
                ign = ign[:-1] if len(set(ign[:-1])) < len(self.base_edges) else []
            required = [e for e in self.base_edges if e not in set(ign)]
            want = dilworth(self.G, required, self.starts, self.ends)
            if op[2] == "noargs" and not ign and (self.starts or self.ends):
                # without arguments the width covers ALL edges of the s-t graph, and the synthetic edge of a declared inner
                # start/end node is not comparable with that node's own edges
                want = dilworth(self.H, list(self.H.edges()))
            if want is None:
                return
            if op[2] == "noargs" and not ign:
                got = stg.get_width()
            else:
                got = stg.get_width(edges_to_ignore=list(ign) + list(stg.source_sink_edges))
            if got != want:
                self.fail("width_wrong", f"get_width(ignore={ign}, mode={op[2]}) = {got}, Dilworth/brute force says {want}")
            if want >= 2:
                self.flags["width>=2"] += 1
        elif name == "antichain":
            target = stg if self.kind == "dag" else stg._condensation_expanded
            TH = nx.DiGraph(target)
            tedges = sorted(TH.edges(), key=str)
            vals = op[2]
            wkind = op[1]
            weights = {}
            for i, e in enumerate(tedges):
                x = vals[i % len(vals)]
                if wkind == "unit":
                    x = 1 if x else 0
                elif wkind == "large":
                    x = 10**6 if x else 0
                elif wkind == "zero":
                    x = 0
                if e[0] == target.source or e[1] == target.sink:
                    x = 0 if op[3] else x
                weights[e] = x
            got_w, got_ac = target.compute_max_edge_antichain(get_antichain=True, weight_function=dict(weights))
            got_w2 = target.compute_max_edge_antichain(get_antichain=False, weight_function=dict(weights))
            if got_w != got_w2:
                self.fail("antichain_inconsistent", f"get_antichain=True gives {got_w}, False gives {got_w2}")
                return
            for e in got_ac:
                if not TH.has_edge(*e):
                    self.fail("antichain_foreign_edge", f"{e}")
                    return
            for a, b in itertools.combinations(got_ac, 2):
                if b[0] in _reach(TH, a[1]) or a[0] in _reach(TH, b[1]) or a == b:
                    self.fail("antichain_not_antichain", f"{a} and {b} lie on a common path; weights {weights}")
                    return
            s = sum(weights[e] for e in got_ac)
            if s != got_w:
                self.fail("antichain_weight_mismatch", f"reported {got_w} but the returned edges weigh {s}")
                return
            want = max_weight_antichain(TH, weights)
            if want is not None and want != got_w:
                self.fail("antichain_not_maximum", f"reported {got_w}, brute-force maximum {want}; weights {weights}")
                return
            if len(got_ac) >= 2:
                self.flags["antichain>=2"] += 1
        elif name in ("peel", "bottleneck"):
            if self.kind != "dag" or self.starts or self.ends:
                return  # peeling is stated for a conserving flow between the graph's own sources and sinks
            f = {(u, v): d["flow"] for u, v, d in self.G.edges(data=True)}
            if name == "peel":
                paths, weights = stg.decompose_using_max_bottleneck("flow")
                acc = Counter()
                for p, w in zip(paths, weights):
                    if not (w > 0):
                        self.fail("peel_nonpositive_weight", f"{weights}")
                        return
                    if not p or self.G.in_degree(p[0]) != 0 or self.G.out_degree(p[-1]) != 0 or any(not self.G.has_edge(a, b) for a, b in zip(p[:-1], p[1:])):
                        self.fail("peel_bad_path", f"{p}")
                        return
                    for e in zip(p[:-1], p[1:]):
                        acc[e] += w
                if len(paths) != len(weights) or any(abs(acc.get(e, 0) - fe) > 1e-9 for e, fe in f.items()):
                    self.fail("peel_not_a_decomposition", f"paths {paths} weights {weights} flow {f}")
                    return
                if len(paths) >= 2:
                    self.flags["peel>=2"] += 1
                # the caller's graph must be untouched by the peeling
                if {(u, v): d["flow"] for u, v, d in self.G.edges(data=True)} != f:
                    self.fail("peel_mutated_graph", "flow attributes of the caller's graph changed")
            else:
                from flowpaths.utils import graphutils as gu

                b, p = gu.max_bottleneck_path(self.G, "flow")
                allp = all_st_paths(self.G, limit=200)
                if allp is None:
                    return
                best = max(min(f[e] for e in zip(q[:-1], q[1:])) for q in allp if len(q) >= 2)
                if p is None:
                    if best > 0:
                        self.fail("bottleneck_none", f"no path returned but a path with bottleneck {best} exists")
                    return
                if min(f[e] for e in zip(p[:-1], p[1:])) != b or b != best or self.G.in_degree(p[0]) != 0 or self.G.out_degree(p[-1]) != 0:
                    self.fail("bottleneck_wrong", f"returned ({b}, {p}); true maximum bottleneck {best}")


def run_case(case, tier="quick"):
    try:
        it = Interp(case)
        ops = case["ops"]
        if not isinstance(ops, list):
            return invalid_config("ops")
    except Crash as c:
        return invalid_config(f"graph rejected: {c}")
    except Exception as e:
        return invalid_config(f"malformed case {e!r}")
    labels = {f"kind:{it.kind}"}
    try:
        for op in ops:
            try:
                guarded(it.apply, list(op))
            except Crash as c:
                if c.site is None and c.exc_type in ("IndexError", "TypeError", "KeyError", "ZeroDivisionError", "ValueError"):
                    return invalid_config(f"malformed op {op}: {c}")
                return violation("crash", f"query {op} raised {c}", labels, site=c.site)
            if it.bad:
                return violation(it.bad[0], f"after {it.flags['queries']} queries: {it.bad[1]}", labels)
    except Exception as e:
        return invalid_config(f"malformed ops {e!r}")
    return _final(it, labels)


def _final(it, labels):
    H = it.H
    nscc = sum(1 for c in nx.strongly_connected_components(H) if len(c) > 1 or any(H.has_edge(v, v) for v in c))
    labels |= {f"sccs:{min(nscc, 3)}"} | {f"flag:{k}" for k in it.flags if k not in ("queries",)}
    nontrivial = it.flags["queries"] >= 6 and it.flags["repeat"] >= 1 and (nscc >= 2 or it.flags["antichain>=2"] > 0 or it.flags["peel>=2"] > 0)
    return ok(labels, nontrivial)


# ------------------------------------------------------------------------------------------ machine
@st.composite
def graphs(draw, tier):
    big = tier == "thorough"
    kind = draw(st.sampled_from(["digraph", "dag", "digraph"]))
    if kind == "dag":
        inst = draw(gen.planted_dag_flows(max_nodes=7 if big else 5, max_paths=4))
    else:
        inst = draw(gen.planted_walk_flows(max_nodes=8 if big else 6, max_walks=3))
    g = {"nodes": [[v, {}] for v in inst["nodes"]], "edges": [[u, v, {"flow": inst["flow"][(u, v)]}] for (u, v) in inst["edges"]]}
    out = {"kind": kind, "graph": g}
    if draw(st.integers(0, 2)) == 0:
        # declared additional start / end nodes (any node, also inner ones): the augmented graph gets extra source / sink edges
        nodes = list(inst["nodes"])
        out["starts"] = sorted(set(draw(st.lists(st.sampled_from(nodes), min_size=0, max_size=2))))
        out["ends"] = sorted(set(draw(st.lists(st.sampled_from(nodes), min_size=0, max_size=2))))
    return out


def make_machine(tier, rec, raise_on_new):
    class SubstrateMachine(RuleBasedStateMachine):
        def __init__(self):
            super().__init__()
            self.case = None
            self.it = None
            self.dead = False

        @initialize(g=graphs(tier))
        def setup(self, g):
            self.case = dict(g, ops=[])
            try:
                self.it = Interp(self.case)
            except Exception:
                self.dead = True

        def _do(self, op):
            if self.dead or self.it is None or rec.expired():
                return
            self.case["ops"].append(op)
            out = None
            try:
                guarded(self.it.apply, op)
            except Crash as c:
                out = violation("crash", f"query {op} raised {c}", {f"kind:{self.it.kind}"}, site=c.site)
            if out is None and self.it.bad:
                out = violation(self.it.bad[0], f"after {self.it.flags['queries']} queries: {self.it.bad[1]}", {f"kind:{self.it.kind}"})
            if out is not None:
                self.dead = True
                b = rec.record(self.case, out)
                if b is not None and raise_on_new:
                    raise AssertionError(f"violation bucket {b}")

        @rule(i=st.integers(0, 9))
        def reach(self, i):
            self._do(["reach", i])

        @rule(i=st.integers(0, 9))
        def reaching(self, i):
            self._do(["reaching", i])

        @rule(i=st.integers(0, 9), back=st.booleans())
        def reach_edges(self, i, back):
            self._do(["reaching_edges" if back else "reach_edges", i])

        @rule(i=st.integers(0, 15))
        def scc_edge(self, i):
            self._do(["scc_edge", i])

        @rule()
        def maxreach(self):
            self._do(["maxreach"])

        @rule(ign=st.lists(st.integers(0, 15), max_size=3), mode=st.sampled_from(["noargs", "explicit"]))
        def width(self, ign, mode):
            self._do(["width", ign, mode])

        @rule(g=st.integers(0, 5), sub=st.integers(1, 7))
        def width_bridge(self, g, sub):
            self._do(["width_bridge", g, sub])

        @rule(kind=st.sampled_from(["unit", "mixed", "large", "zero"]), vals=st.lists(st.integers(0, 4), min_size=1, max_size=8), zero_synth=st.booleans())
        def antichain(self, kind, vals, zero_synth):
            self._do(["antichain", kind, vals, zero_synth])

        @rule()
        def peel(self):
            self._do(["peel"])

        @rule()
        def bottleneck(self):
            self._do(["bottleneck"])

        def teardown(self):
            if not self.dead and self.it is not None and self.case["ops"] and not rec.expired():
                rec.record(self.case, _final(self.it, {f"kind:{self.it.kind}"}))

    return SubstrateMachine
