"""Shared helpers: outcomes, canonical hashing, graph (de)serialisation, guarded library calls."""
import hashlib
import json
import os
import sys
import traceback

import networkx as nx

VERIF_ROOT = os.path.dirname(os.path.dirname(os.path.abspath(__file__)))
REPO_ROOT = os.path.realpath(os.environ.get("FPVERIF_REPO", "/repo"))

TOL = 1e-6


# ----------------------------------------------------------------------------- outcomes
def ok(labels=(), nontrivial=False, facts=None):
    return {"status": "ok", "labels": sorted(set(labels)), "nontrivial": bool(nontrivial), "facts": facts or {}}


def violation(kind, detail, labels=(), nontrivial=True, facts=None, site=None):
    return {
        "status": "violation",
        "kind": kind,
        "detail": detail,
        "site": site,
        "labels": sorted(set(labels)),
        "nontrivial": bool(nontrivial),
        "facts": facts or {},
    }


def inconclusive(reason, labels=(), facts=None):
    return {"status": "inconclusive", "reason": reason, "labels": sorted(set(labels)), "nontrivial": False, "facts": facts or {}}


def invalid_config(reason, labels=()):
    return {"status": "invalid_config", "reason": reason, "labels": sorted(set(labels)), "nontrivial": False, "facts": {}}


# ----------------------------------------------------------------------------- hashing / json
def _default(o):
    if isinstance(o, (set, frozenset)):
        return sorted(_default(x) if not isinstance(x, (str, int, float)) else x for x in o)
    if isinstance(o, tuple):
        return list(o)
    if isinstance(o, type):
        return o.__name__
    try:
        import numpy as np

        if isinstance(o, np.generic):
            return o.item()
    except Exception:
        pass
    return repr(o)


def dumps(obj, **kw):
    return json.dumps(obj, default=_default, sort_keys=True, **kw)


def case_hash(case):
    return hashlib.sha1(dumps(case).encode()).hexdigest()[:16]


# ----------------------------------------------------------------------------- graphs
def graph_to_json(G, edge_attrs=True):
    return {
        "nodes": [[n, dict(d)] for n, d in G.nodes(data=True)],
        "edges": [[u, v, dict(d)] for u, v, d in G.edges(data=True)],
        **({"gid": G.graph["id"]} if "id" in G.graph else {}),
    }


def graph_from_json(g):
    G = nx.DiGraph()
    if "gid" in g:
        G.graph["id"] = g["gid"]
    for n, d in g.get("nodes", []):
        G.add_node(n, **d)
    for u, v, d in g.get("edges", []):
        G.add_edge(u, v, **d)
    return G


def tuplify_edges(lst):
    return [tuple(e) for e in lst]


# ----------------------------------------------------------------------------- guarded calls
class Crash(Exception):
    """A library call ended with an exception (incl. SystemExit / RecursionError)."""

    def __init__(self, exc, site):
        super().__init__(f"{type(exc).__name__}: {exc}")
        self.exc = exc
        self.exc_type = type(exc).__name__
        self.site = site
        self.msg = str(exc)[:300]


def innermost_repo_frame(tb):
    """'file.py:func' of the innermost traceback frame that lies inside the flowpaths package."""
    site = None
    for fr, lineno in traceback.walk_tb(tb):
        fn = fr.f_code.co_filename
        if os.sep + "flowpaths" + os.sep in fn:
            site = f"{os.path.basename(fn)}:{fr.f_code.co_name}"
    return site


def guarded(fn, *a, **kw):
    """Run a library call; every exception (BaseException, the library calls exit()) becomes Crash."""
    try:
        return fn(*a, **kw)
    except KeyboardInterrupt:
        raise
    except BaseException as e:  # noqa: BLE001 - deliberate, see DESIGN.md "Exception policy"
        raise Crash(e, innermost_repo_frame(e.__traceback__)) from None


def solver_options(tier="quick"):
    return {"threads": 1, "time_limit": 15 if tier == "quick" else 120}


def check_repo_binding():
    """Refuse to run unless `flowpaths` is imported from the tree under test."""
    import flowpaths

    f = os.path.realpath(flowpaths.__file__)
    if not f.startswith(REPO_ROOT + os.sep):
        print(f"HARNESS-ERROR: flowpaths imported from {f}, expected under {REPO_ROOT}")
        sys.exit(2)


def feq(a, b, scale=1.0):
    return abs(a - b) <= TOL * (1.0 + abs(scale))
