"""Known-findings matching.

known_findings.json is committed and never written at run time.  An entry with status "known"
suppresses a generated violation only if property, kind and the named predicate all match; entries with
status "fixed" suppress nothing (they only document the repair and keep the regression witness alive).
"""
import json
import os

from .common import VERIF_ROOT

_PATH = os.path.join(VERIF_ROOT, "known_findings.json")


def load():
    if not os.path.exists(_PATH):
        return []
    with open(_PATH) as f:
        return json.load(f).get("findings", [])


# --------------------------------------------------------------------------- predicates
# Each predicate is a pure function (case, outcome) -> bool over the concrete case and the facts the
# oracle attached to the outcome.  They are deliberately narrow: class + symptom + structural condition.
def _fact(outcome, key, default=None):
    return (outcome.get("facts") or {}).get(key, default)


PREDICATES = {
    "always": lambda case, out: True,
    "scale_factor_below_one": lambda case, out: _fact(out, "scale_factor", 1) < 1,
    "smaller_scale_worse": lambda case, out: bool(_fact(out, "smaller_scale_worse")),
    "retraversal_needed_at_width": lambda case, out: bool(_fact(out, "needs_retraversal")),
    "cyclic_with_starts_or_ends": lambda case, out: bool(_fact(out, "cyclic")) and bool(_fact(out, "has_starts_ends")),
    "error_scaling_present": lambda case, out: bool(_fact(out, "has_scaling")),
    "float_multiplicity_exceeds_data": lambda case, out: _fact(out, "wt") == "float" and bool(_fact(out, "mult_exceeds_data")),
    "product_bits_cap_explains": lambda case, out: bool(_fact(out, "design_cap_explains")),
    "repetition_cap_explains_gap": lambda case, out: _fact(out, "cap_explains_gap") in (True, "undecided"),
    "float_needs_multiplicity_above_cap": lambda case, out: _fact(out, "wt") == "float" and bool(_fact(out, "ref_multiplicity_exceeds_cap")),
    "number_exceeds_total": lambda case, out: bool(_fact(out, "number_exceeds_total")),
    "single_node_route": lambda case, out: bool(_fact(out, "single_node_route")),
    "edge_off_every_st_walk": lambda case, out: bool(_fact(out, "edge_off_st_walk")),
    "node_mode_with_starts_ends": lambda case, out: bool(_fact(out, "node_mode")) and bool(_fact(out, "has_starts_ends")),
}


def match(prop_id, case, outcome, entries=None):
    """Return the id of the 'known' entry that covers this violation, or None."""
    if outcome.get("status") != "violation":
        return None
    for e in entries if entries is not None else load():
        if e.get("status") != "known" or e.get("property") != prop_id:
            continue
        if e.get("kind") and e["kind"] != outcome.get("kind"):
            continue
        if e.get("class") and e["class"] != (case.get("cls") if isinstance(case, dict) else None):
            continue
        if e.get("site") and e["site"] != outcome.get("site"):
            continue
        pred = PREDICATES.get(e.get("predicate", "always"))
        if pred is None:
            continue
        try:
            if pred(case, outcome):
                return e["id"]
        except Exception:
            continue
    return None
