"""Shared Hypothesis strategies.  Everything is built by construction (no filter/assume);
all randomness comes from Hypothesis draws (a `Chooser` wraps one drawn list of ints)."""
import networkx as nx
from hypothesis import strategies as st

# Node names: strings only (documented requirement).  The pool deliberately contains names that collide
# with the library's internal conventions (source_/sink_ prefixes, '.0'/'.1' expansion suffixes,
# '_expanded', digits, single characters of "source_0123456789").
PLAIN = ["a", "b", "c", "d", "e", "f", "g", "h"]
ODD = ["s", "t", "0", "1", "2", "9", "source", "sink", "a.0", "a.1", "b.1", "0_expanded", "v_2", "x y", "u"]


class Chooser:
    """Deterministic choice stream backed by one drawn list of non-negative ints."""

    def __init__(self, ints):
        self.ints = list(ints) or [0]
        self.i = 0

    def next(self):
        # index-dependent offset: even an all-zero list (Hypothesis' favourite) yields varied choices
        # (a fixed integer mixing function of the drawn value and the position - no RNG of our own)
        x = (self.ints[self.i % len(self.ints)] + 1) * 2654435761 + (self.i + 1) * 40503 * (len(self.ints) + 1)
        x &= 0xFFFFFFFF
        x ^= x >> 15
        x = (x * 2246822519) & 0xFFFFFFFF
        x ^= x >> 13
        v = x >> 4
        self.i += 1
        return v

    def below(self, n):
        return self.next() % n if n > 0 else 0

    def pick(self, seq):
        seq = list(seq)
        return seq[self.below(len(seq))]

    def coin(self, num=1, den=2):
        return self.below(den) < num

    def subset(self, seq, num=1, den=2):
        return [x for x in seq if self.coin(num, den)]


def choosers(size=48, hi=11):
    return st.lists(st.integers(0, hi), min_size=4, max_size=size).map(Chooser)


@st.composite
def node_names(draw, n, odd_ok=True):
    """n distinct node names; mostly plain letters, sometimes the awkward ones."""
    style = draw(st.sampled_from(["plain", "plain", "plain", "mixed", "odd"])) if odd_ok else "plain"
    if style == "plain":
        pool = PLAIN
    elif style == "mixed":
        pool = PLAIN[:4] + ODD
    else:
        pool = ODD
    if n > len(pool):
        pool = pool + [f"n{i}" for i in range(n)]
    perm = draw(st.permutations(pool))
    return list(perm[:n])


# ------------------------------------------------------------------------------------------- DAGs
@st.composite
def dags(draw, min_nodes=2, max_nodes=5, odd_names=True, allow_isolated=False, force_shape=None):
    """A DAG as (nodes_in_insertion_order, edges).  Nodes come in a drawn topological order, every forward
    pair is an edge according to a drawn density class.  Nodes without any edge are dropped unless allowed."""
    sizes = list(range(min_nodes, max_nodes + 1))
    # Hypothesis emits many "all-simplest" examples (first element of every sampled_from): keep that one interesting
    n = draw(st.sampled_from(sizes[len(sizes) // 2 :] + sizes + sizes[-2:]))
    names = draw(node_names(n, odd_names))
    dens = draw(st.sampled_from([5, 3, 4, 6, 8]))  # out of 8
    ch = draw(choosers())
    edges = []
    shape = draw(st.sampled_from(["random"] * 8 + ["path", "star_out", "star_in", "hourglass", "ladder"]))
    shape = force_shape or shape
    if shape == "hourglass" and n >= 5:
        # several ways into one hub and several ways out of it: routes can be recombined at the hub, which is where
        # heuristics (greedy, safety) and exact answers part ways
        a = 2 + (ch.below(2) if n >= 6 else 0)
        tops, hub, bottoms = names[:a], names[a], names[a + 1:]
        edges = [(t_, hub) for t_ in tops] + [(hub, b_) for b_ in bottoms]
        edges += [(t_, b_) for t_ in tops for b_ in bottoms if ch.below(8) == 0]
    elif shape == "ladder" and n >= 4:
        # a chain with skip edges: every inner node can be entered and left in two ways, and every skip edge is a
        # shortcut next to a detour through the same end nodes
        edges = [(names[i], names[i + 1]) for i in range(n - 1)] + [(names[i], names[i + 2]) for i in range(n - 2) if ch.below(4) != 0]
        if ch.coin(1, 3):
            edges.append((names[0], names[-1]))
    elif shape == "path":
        edges = [(names[i], names[i + 1]) for i in range(n - 1)]
    elif shape == "star_out":
        edges = [(names[0], names[i]) for i in range(1, n)]
    elif shape == "star_in":
        edges = [(names[i], names[-1]) for i in range(n - 1)]
    else:
        for i in range(n):
            for j in range(i + 1, n):
                if ch.below(8) < dens:
                    edges.append((names[i], names[j]))
    if not edges:
        edges = [(names[0], names[1])]
    used = {x for e in edges for x in e}
    nodes = [x for x in names if x in used or allow_isolated]
    # insertion order need not be topological
    if draw(st.booleans()):
        nodes = list(draw(st.permutations(nodes)))
        edges = list(draw(st.permutations(edges)))
    return nodes, edges


def sources_sinks(nodes, edges):
    indeg = {v: 0 for v in nodes}
    outdeg = {v: 0 for v in nodes}
    for u, v in edges:
        outdeg[u] += 1
        indeg[v] += 1
    return [v for v in nodes if indeg[v] == 0], [v for v in nodes if outdeg[v] == 0]


def succ_map(nodes, edges):
    s = {v: [] for v in nodes}
    for u, v in edges:
        s[u].append(v)
    return s


def random_st_path(ch, nodes, edges, starts=None, ends=None):
    """Random source->sink path of a DAG (starts/ends may add admissible end points)."""
    srcs, snks = sources_sinks(nodes, edges)
    succ = succ_map(nodes, edges)
    start_pool = sorted(set(srcs) | set(starts or []))
    end_set = set(ends or [])
    G = nx.DiGraph()
    G.add_nodes_from(nodes)
    G.add_edges_from(edges)
    topo = {v: i for i, v in enumerate(nx.topological_sort(G))}
    v = ch.pick(start_pool)
    path = [v]
    while True:
        if not succ[v]:
            return path
        if v in end_set and len(path) >= 1 and ch.coin(1, 3):
            return path
        if ch.coin():
            v = min(succ[v], key=lambda x: topo[x])  # bias towards long paths
        else:
            v = ch.pick(succ[v])
        path.append(v)


@st.composite
def planted_dag_flows(draw, max_nodes=5, max_paths=4, wmax=6, odd_names=True, float_weights=None):
    """DAG = union of k0 planted source->sink paths, flow = superposition (strictly positive, conserving).
    Returns dict(nodes, edges, flow{edge: value}, planted=[(path, w)], weight_type)."""
    nodes, edges = draw(dags(2, max_nodes, odd_names))
    ch = draw(choosers())
    k0 = draw(st.integers(1, max_paths))
    wt = draw(st.sampled_from(["int", "float"])) if float_weights is None else ("float" if float_weights else "int")
    planted = []
    for _ in range(k0):
        p = random_st_path(ch, nodes, edges)
        w = 1 + ch.below(wmax)
        if wt == "float":
            w = w * 0.25 if ch.coin() else float(w)
        planted.append((p, w))
    flow = {}
    for p, w in planted:
        for e in zip(p[:-1], p[1:]):
            flow[e] = flow.get(e, 0) + w
    kept_edges = [e for e in edges if e in flow]
    used = {x for e in kept_edges for x in e}
    kept_nodes = [v for v in nodes if v in used]
    # planted paths of a single node (isolated source==sink) vanish with their node; drop them
    planted = [(p, w) for p, w in planted if len(p) >= 2]
    if not kept_edges:
        # degenerate: all planted paths were single nodes; fall back to one edge
        u, v = edges[0]
        kept_nodes, kept_edges, flow = [u, v], [(u, v)], {(u, v): 1 if wt == "int" else 1.0}
        planted = [([u, v], flow[(u, v)])]
    return {"nodes": kept_nodes, "edges": kept_edges, "flow": flow, "planted": planted, "weight_type": wt}


# ------------------------------------------------------------------------------------------- digraphs with cycles
def st_core(nodes, edges):
    """Keep only edges lying on some source->sink walk (sources/sinks = in-/out-degree 0 nodes)."""
    G = nx.DiGraph()
    G.add_nodes_from(nodes)
    G.add_edges_from(edges)
    srcs = [v for v in nodes if G.in_degree(v) == 0]
    snks = [v for v in nodes if G.out_degree(v) == 0]
    from_src = set()
    for s in srcs:
        from_src |= {s} | nx.descendants(G, s)
    to_snk = set()
    for t in snks:
        to_snk |= {t} | nx.ancestors(G, t)
    kept = [(u, v) for (u, v) in edges if u in from_src and v in to_snk]
    used = {x for e in kept for x in e}
    return [v for v in nodes if v in used], kept


GADGETS = ["node", "loop", "two", "node", "tri", "eight", "chord"]


@st.composite
def cyclic_digraphs(draw, max_skel=4, max_nodes=7, odd_names=True, core_only=True):
    """Digraph with cycles: a DAG skeleton whose nodes are replaced by SCC gadgets (size-budgeted, with pendant
    sources/sinks where a cyclic gadget sits at a skeleton source/sink), or a plain random digraph with one
    designated source and sink.  With core_only every edge lies on a source->sink walk."""
    kind = draw(st.sampled_from(["gadget", "gadget", "random", "gadget", "random", "loops"]))
    ch = draw(choosers(64))
    if kind == "loops":
        # a DAG whose only cycles are self-loops: "acyclic apart from loops" is where cycle handling is easily skipped
        nodes, edges = draw(dags(3, min(max_nodes, 5), odd_names))
        inner = [v for v in nodes if any(e[1] == v for e in edges) and any(e[0] == v for e in edges)]
        loops = [v for v in inner if ch.coin(2, 3)] or inner[:1]
        edges = list(edges) + [(v, v) for v in loops]
        if not loops:
            kind = "gadget"
    if kind == "loops":
        pass
    elif kind == "gadget":
        sk_nodes, sk_edges = draw(dags(2, min(max_skel, max(2, max_nodes // 2)), False))
        sk_src, sk_snk = sources_sinks(sk_nodes, sk_edges)
        budget = max_nodes - len(sk_nodes)
        members = {}
        edges = []
        cnt = 0
        names = []

        def fresh():
            nonlocal cnt
            cnt += 1
            return f"v{cnt}"

        forced = ch.below(len(sk_nodes))  # at least one skeleton node becomes a cyclic gadget
        for vi, v in enumerate(sk_nodes):
            g = ch.pick(GADGETS)
            if vi == forced and g == "node":
                g = ch.pick(["loop", "two", "tri", "eight", "chord"])
            pend = (1 if v in sk_src else 0) + (1 if v in sk_snk else 0)
            extra = {"node": 0, "loop": 0, "two": 1, "tri": 2, "eight": 2, "chord": 2}[g] + (pend if g != "node" else 0)
            if extra > budget:
                g = "loop" if pend <= budget and g != "node" else "node"
                extra = pend if g == "loop" else 0
            budget -= extra
            if g == "node":
                ms = [fresh()]
            elif g == "loop":
                ms = [fresh()]
                edges.append((ms[0], ms[0]))
            elif g == "two":
                ms = [fresh(), fresh()]
                edges += [(ms[0], ms[1]), (ms[1], ms[0])]
            elif g == "tri":
                ms = [fresh(), fresh(), fresh()]
                edges += [(ms[0], ms[1]), (ms[1], ms[2]), (ms[2], ms[0])]
            elif g == "eight":
                ms = [fresh(), fresh(), fresh()]
                edges += [(ms[0], ms[1]), (ms[1], ms[0]), (ms[0], ms[2]), (ms[2], ms[0])]
            else:  # chord
                ms = [fresh(), fresh(), fresh()]
                edges += [(ms[0], ms[1]), (ms[1], ms[2]), (ms[2], ms[0]), (ms[1], ms[0])]
            members[v] = ms
            names += ms
            if g != "node" and v in sk_src:
                p_ = fresh()
                names.insert(0, p_)
                edges.append((p_, ch.pick(ms)))
            if g != "node" and v in sk_snk:
                p_ = fresh()
                names.append(p_)
                edges.append((ch.pick(ms), p_))
        for u, v in sk_edges:
            mult = 1 + (1 if ch.coin(1, 2) else 0) + (1 if ch.coin(1, 6) else 0)  # parallel bridges between two gadgets
            for _ in range(mult):
                e = (ch.pick(members[u]), ch.pick(members[v]))
                if e not in edges:
                    edges.append(e)
        nodes = names
        if odd_names:
            new = draw(node_names(len(nodes), True))
            ren = dict(zip(nodes, new))
            nodes = [ren[v] for v in nodes]
            edges = [(ren[u], ren[v]) for u, v in edges]
    else:
        n = draw(st.sampled_from([4, 3, 5, 4, 5][: 5 if max_nodes >= 5 else 2]))
        nodes = draw(node_names(n, odd_names))
        dens = draw(st.sampled_from([4, 3, 6]))
        edges = []
        for i in range(n):
            for j in range(n):
                if j == 0 or i == n - 1:
                    continue  # nodes[0] stays a source, nodes[-1] a sink
                if ch.below(8) < dens:
                    edges.append((nodes[i], nodes[j]))
        # make every inner node reachable from the source and co-reachable from the sink
        G = nx.DiGraph()
        G.add_nodes_from(nodes)
        G.add_edges_from(edges)
        for v in nodes[1:-1]:
            if not nx.has_path(G, nodes[0], v):
                G.add_edge(nodes[0], v)
                edges.append((nodes[0], v))
        for v in reversed(nodes[1:-1]):
            if not nx.has_path(G, v, nodes[-1]):
                G.add_edge(v, nodes[-1])
                edges.append((v, nodes[-1]))
        if not edges:
            edges = [(nodes[0], nodes[-1])]
    if core_only:
        nodes, edges = st_core(nodes, edges)
    if not edges:
        nodes, edges = ["a", "b"], [("a", "b")]
    return nodes, edges


def random_st_walk(ch, nodes, edges, target_len=6, cap=24, starts=None, ends=None):
    """Random source->sink walk with a bias towards staying inside cycles until target_len."""
    G = nx.DiGraph()
    G.add_nodes_from(nodes)
    G.add_edges_from(edges)
    srcs = [v for v in nodes if G.in_degree(v) == 0]
    snks = {v for v in nodes if G.out_degree(v) == 0}
    scc = {}
    for i, comp in enumerate(nx.strongly_connected_components(G)):
        for v in comp:
            scc[v] = i
    start_pool = sorted(set(srcs) | set(starts or []))
    end_set = set(ends or [])
    v = ch.pick(start_pool)
    walk = [v]
    while v not in snks:
        if v in end_set and ch.coin(1, 3):
            break
        succ = list(G.successors(v))
        if len(walk) >= cap:
            # finish along a shortest path to a sink
            best = None
            for t in sorted(snks | end_set):
                if nx.has_path(G, v, t):
                    p = nx.shortest_path(G, v, t)
                    if best is None or len(p) < len(best):
                        best = p
            walk += best[1:]
            break
        if target_len == 0:
            # a direct route: never re-enter a node while there is another way on
            succ = [w for w in succ if w not in walk] or succ
        if len(walk) < target_len:
            inside = [w for w in succ if scc[w] == scc[v]]
            nonsink = [w for w in succ if w not in snks]
            if inside and ch.coin(2, 3):
                succ = inside
            elif nonsink and ch.coin(3, 4):
                succ = nonsink
        v = ch.pick(succ)
        walk.append(v)
    return walk


@st.composite
def planted_walk_flows(draw, max_nodes=6, max_walks=3, wmax=4, odd_names=True):
    """Cyclic instance = union of k0 planted source->sink walks, flow = superposition (positive ints)."""
    nodes, edges = draw(cyclic_digraphs(max_nodes=max_nodes, odd_names=odd_names))
    ch = draw(choosers(64))
    k0 = draw(st.integers(1, max_walks))
    planted = []
    for _ in range(k0):
        w = random_st_walk(ch, nodes, edges, target_len=2 + ch.below(6), cap=12)
        planted.append((w, 1 + ch.below(wmax)))
    flow = {}
    for w, x in planted:
        for e in zip(w[:-1], w[1:]):
            flow[e] = flow.get(e, 0) + x
    kept_edges = [e for e in edges if e in flow]
    used = {x for e in kept_edges for x in e}
    kept_nodes = [v for v in nodes if v in used]
    planted = [(w, x) for w, x in planted if len(w) >= 2]
    if not kept_edges:
        u, v = "a", "b"
        kept_nodes, kept_edges, flow, planted = [u, v], [(u, v)], {(u, v): 1}, [([u, v], 1)]
    return {"nodes": kept_nodes, "edges": kept_edges, "flow": flow, "planted": planted, "weight_type": "int"}


# =========================================================================================== model cases
DAG_FD = ["kFlowDecomp", "MinFlowDecomp"]
CYC_FD = ["kFlowDecompCycles", "MinFlowDecompCycles"]
DAG_CLASSES = ["kFlowDecomp", "MinFlowDecomp", "kLeastAbsErrors", "kMinPathError", "kPathCover", "MinPathCover"]
CYC_CLASSES = ["kFlowDecompCycles", "MinFlowDecompCycles", "kLeastAbsErrorsCycles", "kMinPathErrorCycles", "kPathCoverCycles", "MinPathCoverCycles"]
ALL_CLASSES = DAG_CLASSES + CYC_CLASSES
COVER = {"kPathCover", "MinPathCover", "kPathCoverCycles", "MinPathCoverCycles"}
MINCLS = {"MinFlowDecomp", "MinPathCover", "MinFlowDecompCycles", "MinPathCoverCycles"}
HAS_STARTS_ENDS = {"kLeastAbsErrors", "kMinPathError", "kPathCover", "MinPathCover", "kFlowDecompCycles", "kLeastAbsErrorsCycles", "kMinPathErrorCycles", "kPathCoverCycles", "MinPathCoverCycles"}
HAS_SCALING = {"kLeastAbsErrors", "kMinPathError", "kLeastAbsErrorsCycles", "kMinPathErrorCycles"}
INEXACT = HAS_SCALING

# documented optimisation flags per family (class attributes / docs/solver-options-optimizations.md)
DAG_FLAGS = ["optimize_with_safe_paths", "optimize_with_safe_sequences", "optimize_with_safe_zero_edges",
             "optimize_with_subpath_constraints_as_safe_sequences", "optimize_with_safety_as_subpath_constraints",
             "optimize_with_safety_from_largest_antichain"]
DAG_FD_FLAGS = ["optimize_with_greedy", "optimize_with_flow_safe_paths"]
MFD_FLAGS = ["use_min_gen_set_lowerbound", "use_min_gen_set_lowerbound_partition_constraints", "optimize_with_guessed_weights",
             "use_subgraph_scanning_lowerbound", "min_gen_set_remove_sums_of_two"]
WALK_FLAGS = ["optimize_with_safe_sequences", "optimize_with_safe_sequences_allow_geq_constraints",
              "optimize_with_safe_sequences_fix_via_bounds", "optimize_with_safe_sequences_fix_zero_edges",
              "optimize_with_safety_as_subset_constraints", "optimize_with_max_safe_antichain_as_subset_constraints"]
MFDC_FLAGS = ["use_min_gen_set_lowerbound", "optimize_with_guessed_weights", "add_min_gen_set_to_given_weights"]


def flags_for(cls):
    if cls in DAG_CLASSES:
        fl = list(DAG_FLAGS)
        if cls in DAG_FD:
            fl += DAG_FD_FLAGS
        if cls == "MinFlowDecomp":
            fl += MFD_FLAGS
        return fl
    fl = list(WALK_FLAGS)
    if cls == "MinFlowDecompCycles":
        fl += MFDC_FLAGS
    return fl


@st.composite
def option_dicts(draw, cls, mode=None):
    """Optimisation-option dicts over the documented flags: each single flag flipped, all-on, all-off, random."""
    flags = flags_for(cls)
    mode = mode or draw(st.sampled_from(["single", "single", "random", "random", "all_off", "all_on", "default"]))
    if mode == "default":
        return {}
    if mode == "all_off":
        return {f: False for f in flags}
    if mode == "all_on":
        return {f: True for f in flags}
    if mode == "single":
        f = draw(st.sampled_from(flags))
        return {f: draw(st.booleans())}
    sub = draw(st.lists(st.sampled_from(flags), min_size=1, max_size=4, unique=True))
    return {f: draw(st.booleans()) for f in sub}


def _subsequence(ch, seq, contiguous):
    n = len(seq)
    if n == 0:
        return []
    if contiguous:
        i = ch.below(n)
        j = i + 1 + ch.below(n - i)
        return list(seq[i:j])
    out = [x for x in seq if ch.coin()]
    return out or [seq[ch.below(n)]]


@st.composite
def model_cases(draw, classes=None, max_nodes=5, p_node=4, p_se=4, p_ignore=4, p_constr=3, p_opts=0,
                odd_names=True, noise=True, k_slack=2, weight_types=("int", "float"), p_float_scale=0, p_equal=4, p_len=5, p_wild=0, p_hub=6, p_iso=6, p_spur=3):
    """A full model construction: class, planted instance, kwargs.  p_* are '1 in p' odds (0 = never).
    The result is a JSON case {cls, graph, flow_attr, kw, meta}; meta carries the planted witness."""
    cls = draw(st.sampled_from(classes or ALL_CLASSES))
    cyc = cls in CYC_CLASSES
    ch = draw(choosers(64))
    one_in = lambda p: p > 0 and ch.below(p) == 0
    use_se = cls in HAS_STARTS_ENDS and one_in(p_se)
    # ---- topology + planted routes
    if cyc:
        nodes, edges = draw(cyclic_digraphs(max_nodes=max_nodes + 1, odd_names=odd_names))
    else:
        hub = one_in(p_hub)
        nodes, edges = draw(dags(5, max(max_nodes, 5), odd_names, force_shape=ch.pick(["hourglass", "ladder"]))) if hub else draw(dags(2, max_nodes, odd_names))
    srcs, snks = sources_sinks(nodes, edges)
    starts, ends = [], []
    if use_se:
        inner_s = [v for v in nodes if v not in srcs]
        inner_e = [v for v in nodes if v not in snks]
        if inner_s and ch.coin(2, 3):
            starts = sorted(set(ch.subset(inner_s, 1, 3)) or {ch.pick(inner_s)})
        if inner_e and ch.coin(2, 3):
            ends = sorted(set(ch.subset(inner_e, 1, 3)) or {ch.pick(inner_e)})
        if ch.coin(1, 6) and srcs:
            starts = sorted(set(starts) | {srcs[0]})  # declaring an existing source must change nothing
    wt = draw(st.sampled_from(list(weight_types)))
    k0 = draw(st.sampled_from([2, 1, 2, 3, 3] if cyc else [3, 1, 2, 2, 3, 4]))
    planted = []
    equal_w = (1 + ch.below(3)) if one_in(p_equal) else None  # ties: greedy / heuristics no longer follow the planted routes
    for _ in range(k0):
        if cyc:
            # a mixture of direct routes and routes that stay in cycles: flow values of cycle edges both below and above the total
            r = random_st_walk(ch, nodes, edges, target_len=ch.pick([0, 3, 0, 2, 5, 7, 4]), cap=12, starts=starts, ends=ends)
        else:
            r = random_st_path(ch, nodes, edges, starts=starts, ends=ends)
        w = equal_w if equal_w is not None else 1 + ch.below(4 if cyc else 6)
        if wt == "float" and not cyc:
            w = w * 0.25 if ch.coin() else float(w)
        elif wt == "float":
            w = float(w)
        planted.append((r, w))
    planted = [(r, w) for r, w in planted if len(r) >= 2]
    if not planted:
        u, v = edges[0]
        # a route through the first edge: shortest connection from a source/start and to a sink/end
        from .oracle.routes import augmented

        G0 = nx.DiGraph()
        G0.add_nodes_from(nodes)
        G0.add_edges_from(edges)
        H0, S0, T0 = augmented(G0, starts, ends)
        r = nx.shortest_path(H0, S0, u)[1:] + nx.shortest_path(H0, v, T0)[:-1]
        planted = [(r, 1 if wt == "int" else 1.0)]
    eflow = {}
    nflow = {}
    for r, w in planted:
        for e in zip(r[:-1], r[1:]):
            eflow[e] = eflow.get(e, 0) + w
        for v in r:
            nflow[v] = nflow.get(v, 0) + w
    kept_edges = [e for e in edges if e in eflow]
    if noise and cls in INEXACT and one_in(p_spur):
        # spurious elements: edges (and their end nodes) that no planted route uses, with a small or a large value of their own -
        # real inexact data contain them, and a good solution leaves them uncovered
        for e in edges:
            if e not in eflow and ch.coin(1, 2):
                eflow[e] = ch.pick([0, 1, 2, 1, 9])
                kept_edges.append(e)
                for x in e:
                    nflow.setdefault(x, ch.pick([0, 1, 2, 9]))
        kept_edges = [e for e in edges if e in eflow]
    used = {x for e in kept_edges for x in e}
    kept_nodes = [v for v in nodes if v in used]
    starts = [v for v in starts if v in used]
    ends = [v for v in ends if v in used]
    # starts/ends that became real sources/sinks in the union stay declared (harmless)
    node_mode = one_in(p_node)
    if cls == "MinFlowDecomp" and (starts or ends):
        node_mode = True
    if cls in ("MinFlowDecomp", "MinFlowDecompCycles") and not node_mode:
        starts, ends = [], []
    # ---- node mode: an isolated weighted node is a legitimate input; its weight can only be explained by a one-node route
    if node_mode and one_in(p_iso):
        iso = next(nm for nm in ("iso", "iso.0", "iso 2") if nm not in nodes)
        w_iso = (1 + ch.below(4)) if wt == "int" else float(1 + ch.below(4))
        nodes = list(nodes) + [iso]
        kept_nodes = kept_nodes + [iso]
        nflow[iso] = w_iso
        planted = list(planted) + [([iso], w_iso)]
    # ---- inexact weights
    noise_total = 0
    if noise and cls in INEXACT and ch.coin(2, 3):
        tgt = nflow if node_mode else eflow
        for key in sorted(tgt, key=repr):
            if ch.coin(1, 3):
                d = ch.pick([-2, -1, 1, 2, 3])
                nv = max(0, tgt[key] + d)
                noise_total += abs(nv - tgt[key])
                tgt[key] = nv
        if all(v == 0 for v in tgt.values()):
            k_ = sorted(tgt, key=repr)[0]
            tgt[k_] = 1 if wt == "int" else 1.0
    # ---- ignored elements
    ignore = []
    if one_in(p_ignore):
        pool = sorted(nflow if node_mode else eflow, key=repr)
        ignore = ch.subset(pool, 1, 3)
        if len(ignore) == len(pool):
            ignore = ignore[:-1]
        if cyc and not node_mode and ch.coin():
            # some, but not all, of several parallel edges between the same two strongly connected components
            Gs = nx.DiGraph()
            Gs.add_edges_from(kept_edges)
            scc_ = {}
            for ci_, comp_ in enumerate(nx.strongly_connected_components(Gs)):
                for x_ in comp_:
                    scc_[x_] = ci_
            groups_ = {}
            for e_ in sorted(kept_edges, key=repr):
                if scc_[e_[0]] != scc_[e_[1]]:
                    groups_.setdefault((scc_[e_[0]], scc_[e_[1]]), []).append(e_)
            groups_ = [g_ for _k, g_ in sorted(groups_.items()) if len(g_) >= 2]
            if groups_:
                g_ = ch.pick(groups_)
                ignore = [g_[ch.below(len(g_))]]
        tgt = nflow if node_mode else eflow
        for key in ignore:
            if ch.coin():
                tgt[key] = ch.below(10) if wt == "int" else ch.below(10) * 0.5
    # ---- nodes lacking the attribute (node mode) = ignored
    missing = []
    if node_mode and cls not in COVER and ch.coin(1, 3):
        missing = ch.subset([v for v in kept_nodes if v not in ignore], 1, 4)
        if len(missing) + len(ignore) >= len(kept_nodes):
            missing = []
    # ---- error scaling
    scaling = []
    if cls in HAS_SCALING and ch.coin(1, 4):
        pool = sorted(nflow if node_mode else eflow, key=repr)
        for key in ch.subset(pool, 1, 2):
            scaling.append([key if node_mode else list(key), ch.pick([0, 0.25, 0.5, 1, 0.5])])
    # ---- constraints from planted routes
    constraints = []
    coverage = 1.0
    if one_in(p_constr):
        for _c in range(1 + ch.below(2)):
            r, _w = ch.pick(planted)
            if node_mode:
                sub = _subsequence(ch, r, ch.coin())
                if cyc:
                    sub = list(dict.fromkeys(sub))
                constraints.append(sub)
            else:
                es = list(zip(r[:-1], r[1:]))
                if cyc:
                    es = list(dict.fromkeys(es))
                sub = _subsequence(ch, es, ch.coin())
                constraints.append([list(e) for e in sub])
        if not cyc and len(planted) >= 2 and ch.coin(1, 2):
            # a "crossing" constraint: enter a shared node along one planted route and leave it along another. The
            # witness gains that route with weight 0, so the constraint is satisfiable but rarely by the decomposition
            # a heuristic (greedy, safety) would pick on its own.
            crossings = []
            for i, (p1, _w1) in enumerate(planted):
                for j, (p2, _w2) in enumerate(planted):
                    if i == j:
                        continue
                    for a in range(1, len(p1)):
                        m = p1[a]
                        if m in p2[:-1]:
                            b = p2.index(m)
                            route = list(p1[:a + 1]) + list(p2[b + 1:])
                            tri = (p1[a - 1], m, p2[b + 1])
                            if not any(tuple(q[c:c + 3]) == tri for q, _w in planted for c in range(len(q) - 2)):
                                crossings.append((route, tri))
            for _x in range(min(len(crossings), 1 + ch.below(2))):
                route, (x, m, y) = ch.pick(crossings)
                con = [x, m, y] if node_mode else [[x, m], [m, y]]
                if con not in constraints:
                    constraints.append(con)
                    planted = list(planted) + [(route, type(planted[0][1])(0))]
        if ch.coin(1, 5):
            constraints.append(constraints[0])
        coverage = ch.pick([1.0, 1.0, 1.0, 0.75, 0.5, 0.34])
        if one_in(p_wild):
            # "wild" constraints: elements in topological order that need not lie on one route; only partially coverable,
            # so they are used with coverage < 1 and only by differential / metamorphic checks (no witness is claimed)
            Gt = nx.DiGraph()
            Gt.add_nodes_from(kept_nodes)
            Gt.add_edges_from(kept_edges)
            if cyc:
                order = {v: i for i, v in enumerate(kept_nodes)}
            else:
                order = {v: i for i, v in enumerate(nx.topological_sort(Gt))}
            pool = sorted(kept_nodes, key=lambda v: order[v]) if node_mode else sorted(kept_edges, key=lambda e: (order[e[0]], order[e[1]]))
            constraints = []
            for _c in range(1 + ch.below(2)):
                sub = [x for x in pool if ch.coin(1, 2)][:4]
                if len(sub) >= 2:
                    constraints.append([x if node_mode else list(x) for x in sub])
            coverage = ch.pick([0.75, 0.5, 0.34, 0.8, 0.9])
            if not constraints:
                coverage = 1.0
    # ---- length-based constraint coverage (DAG classes): lengths on edges (edge mode) or on nodes (node mode)
    lengths = None
    if constraints and not cyc and one_in(p_len):
        lengths = {el: ch.pick([1, 2, 0, 3, 4, 1, 10, 50, 0]) for el in (kept_nodes if node_mode else kept_edges)}  # 0 is a legal length
    # ---- assemble graph
    g_nodes, g_edges = [], []
    for v in kept_nodes:
        d = {}
        if node_mode and cls not in COVER and v not in missing:
            d["flow"] = nflow[v]
        if lengths is not None and node_mode:
            d["len"] = lengths[v]
        g_nodes.append([v, d])
    for e in kept_edges:
        d = {}
        if not node_mode and cls not in COVER:
            d["flow"] = eflow[e]
        if lengths is not None and not node_mode:
            d["len"] = lengths[e]
        g_edges.append([e[0], e[1], d])
    kw = {}
    if cls not in COVER:
        kw["weight_type"] = wt
        if node_mode:
            kw["flow_attr_origin"] = "node"
    elif node_mode:
        kw["cover_type"] = "node"
    if starts:
        kw["additional_starts"] = starts
    if ends:
        kw["additional_ends"] = ends
    if ignore:
        kw["elements_to_ignore"] = [x if node_mode else list(x) for x in ignore]
    if scaling:
        kw["error_scaling"] = scaling
    if constraints:
        kw["subset_constraints" if cyc else "subpath_constraints"] = constraints
        if lengths is not None and ch.coin(1, 3):
            # a length attribute is named but coverage stays count-based: the lengths must then be irrelevant
            kw["length_attr"] = "len"
            if coverage != 1.0:
                kw["subpath_constraints_coverage"] = coverage
        elif lengths is not None:
            kw["length_attr"] = "len"
            kw["subpath_constraints_coverage_length"] = coverage
        elif coverage != 1.0:
            kw["subset_constraints_coverage" if cyc else "subpath_constraints_coverage"] = coverage
    if cls not in MINCLS:
        kw["k"] = len(planted) + ch.below(k_slack + 1)
        if ch.coin(1, 5):
            kw["k"] = max(1, len({tuple(r) for r, _w in planted}) - 1)  # below the witness: usually infeasible
        if cyc and cls in INEXACT:
            kw["k"] = min(kw["k"], 3)  # walk-model MILPs with k >= 4 routinely need > 30 s even on 5 nodes
    if p_opts and one_in(p_opts):
        kw["optimization_options"] = draw(option_dicts(cls))
    meta = {
        "planted": [[r, w] for r, w in planted],
        "k0": len(planted),
        "noise_total": noise_total,
        "cyclic": cyc,
        "node_mode": node_mode,
        "missing_attr": missing,
    }
    graph = {"nodes": g_nodes, "edges": g_edges}
    if ch.coin(1, 4):
        # an explicit graph id (what read_graphs and the examples set); ids are NOT unique: different graphs may carry the same one
        graph["gid"] = ch.pick(["simple_graph", "g"])
    return {"cls": cls, "graph": graph, "flow_attr": "flow", "kw": kw, "meta": meta}
