"""Shared Hypothesis strategies.  Everything is built by construction (no filter/assume);
all randomness comes from Hypothesis draws (a `Chooser` wraps one drawn list of ints)."""
import networkx as nx
from hypothesis import strategies as st

# Node names: strings only (documented requirement).  The pool deliberately contains names that collide
# with the library's internal conventions (source_/sink_ prefixes, '.0'/'.1' expansion suffixes,
# '_expanded', digits, single characters of "source_0123456789").
PLAIN = ["a", "b", "c", "d", "e", "f", "g", "h"]
ODD = ["s", "t", "0", "1", "2", "9", "source", "sink", "a.0", "a.1", "b.1", "0_expanded", "v_2", "x y", "u"]


class Chooser:
    """Deterministic choice stream backed by one drawn list of non-negative ints."""

    def __init__(self, ints):
        self.ints = list(ints) or [0]
        self.i = 0

    def next(self):
        # index-dependent offset: even an all-zero list (Hypothesis' favourite) yields varied choices
        v = self.ints[self.i % len(self.ints)] + 7 * self.i + (self.i // len(self.ints))
        self.i += 1
        return v

    def below(self, n):
        return self.next() % n if n > 0 else 0

    def pick(self, seq):
        seq = list(seq)
        return seq[self.below(len(seq))]

    def coin(self, num=1, den=2):
        return self.below(den) < num

    def subset(self, seq, num=1, den=2):
        return [x for x in seq if self.coin(num, den)]


def choosers(size=48, hi=11):
    return st.lists(st.integers(0, hi), min_size=4, max_size=size).map(Chooser)


@st.composite
def node_names(draw, n, odd_ok=True):
    """n distinct node names; mostly plain letters, sometimes the awkward ones."""
    style = draw(st.sampled_from(["plain", "plain", "plain", "mixed", "odd"])) if odd_ok else "plain"
    if style == "plain":
        pool = PLAIN
    elif style == "mixed":
        pool = PLAIN[:4] + ODD
    else:
        pool = ODD
    if n > len(pool):
        pool = pool + [f"n{i}" for i in range(n)]
    perm = draw(st.permutations(pool))
    return list(perm[:n])


# ------------------------------------------------------------------------------------------- DAGs
@st.composite
def dags(draw, min_nodes=2, max_nodes=5, odd_names=True, allow_isolated=False):
    """A DAG as (nodes_in_insertion_order, edges).  Nodes come in a drawn topological order, every forward
    pair is an edge according to a drawn density class.  Nodes without any edge are dropped unless allowed."""
    n = draw(st.integers(min_nodes, max_nodes))
    names = draw(node_names(n, odd_names))
    dens = draw(st.sampled_from([2, 4, 6, 8]))  # out of 8
    ch = draw(choosers())
    edges = []
    shape = draw(st.sampled_from(["random", "random", "random", "path", "star_out", "star_in", "layers"]))
    if shape == "path":
        edges = [(names[i], names[i + 1]) for i in range(n - 1)]
    elif shape == "star_out":
        edges = [(names[0], names[i]) for i in range(1, n)]
    elif shape == "star_in":
        edges = [(names[i], names[-1]) for i in range(n - 1)]
    else:
        for i in range(n):
            for j in range(i + 1, n):
                if ch.below(8) < dens:
                    edges.append((names[i], names[j]))
    if not edges:
        edges = [(names[0], names[1])]
    used = {x for e in edges for x in e}
    nodes = [x for x in names if x in used or allow_isolated]
    # insertion order need not be topological
    if draw(st.booleans()):
        nodes = list(draw(st.permutations(nodes)))
        edges = list(draw(st.permutations(edges)))
    return nodes, edges


def sources_sinks(nodes, edges):
    indeg = {v: 0 for v in nodes}
    outdeg = {v: 0 for v in nodes}
    for u, v in edges:
        outdeg[u] += 1
        indeg[v] += 1
    return [v for v in nodes if indeg[v] == 0], [v for v in nodes if outdeg[v] == 0]


def succ_map(nodes, edges):
    s = {v: [] for v in nodes}
    for u, v in edges:
        s[u].append(v)
    return s


def random_st_path(ch, nodes, edges, starts=None, ends=None):
    """Random source->sink path of a DAG (starts/ends may add admissible end points)."""
    srcs, snks = sources_sinks(nodes, edges)
    succ = succ_map(nodes, edges)
    start_pool = sorted(set(srcs) | set(starts or []))
    end_set = set(ends or [])
    v = ch.pick(start_pool)
    path = [v]
    while True:
        if not succ[v]:
            return path
        if v in end_set and len(path) >= 1 and ch.coin(1, 3):
            return path
        v = ch.pick(succ[v])
        path.append(v)


@st.composite
def planted_dag_flows(draw, max_nodes=5, max_paths=4, wmax=6, odd_names=True, float_weights=None):
    """DAG = union of k0 planted source->sink paths, flow = superposition (strictly positive, conserving).
    Returns dict(nodes, edges, flow{edge: value}, planted=[(path, w)], weight_type)."""
    nodes, edges = draw(dags(2, max_nodes, odd_names))
    ch = draw(choosers())
    k0 = draw(st.integers(1, max_paths))
    wt = draw(st.sampled_from(["int", "float"])) if float_weights is None else ("float" if float_weights else "int")
    planted = []
    for _ in range(k0):
        p = random_st_path(ch, nodes, edges)
        w = 1 + ch.below(wmax)
        if wt == "float":
            w = w * 0.25 if ch.coin() else float(w)
        planted.append((p, w))
    flow = {}
    for p, w in planted:
        for e in zip(p[:-1], p[1:]):
            flow[e] = flow.get(e, 0) + w
    kept_edges = [e for e in edges if e in flow]
    used = {x for e in kept_edges for x in e}
    kept_nodes = [v for v in nodes if v in used]
    # planted paths of a single node (isolated source==sink) vanish with their node; drop them
    planted = [(p, w) for p, w in planted if len(p) >= 2]
    if not kept_edges:
        # degenerate: all planted paths were single nodes; fall back to one edge
        u, v = edges[0]
        kept_nodes, kept_edges, flow = [u, v], [(u, v)], {(u, v): 1 if wt == "int" else 1.0}
        planted = [([u, v], flow[(u, v)])]
    return {"nodes": kept_nodes, "edges": kept_edges, "flow": flow, "planted": planted, "weight_type": wt}


# ------------------------------------------------------------------------------------------- digraphs with cycles
def st_core(nodes, edges):
    """Keep only edges lying on some source->sink walk (sources/sinks = in-/out-degree 0 nodes)."""
    G = nx.DiGraph()
    G.add_nodes_from(nodes)
    G.add_edges_from(edges)
    srcs = [v for v in nodes if G.in_degree(v) == 0]
    snks = [v for v in nodes if G.out_degree(v) == 0]
    from_src = set()
    for s in srcs:
        from_src |= {s} | nx.descendants(G, s)
    to_snk = set()
    for t in snks:
        to_snk |= {t} | nx.ancestors(G, t)
    kept = [(u, v) for (u, v) in edges if u in from_src and v in to_snk]
    used = {x for e in kept for x in e}
    return [v for v in nodes if v in used], kept


GADGETS = ["node", "loop", "two", "node", "tri", "eight", "chord"]


@st.composite
def cyclic_digraphs(draw, max_skel=4, max_nodes=7, odd_names=True, core_only=True):
    """Digraph with cycles: a DAG skeleton whose inner nodes are replaced by SCC gadgets with drawn attachment
    nodes, or a plain random digraph.  With core_only every edge lies on a source->sink walk."""
    kind = draw(st.sampled_from(["gadget", "gadget", "random"]))
    ch = draw(choosers(64))
    if kind == "gadget":
        sk_nodes, sk_edges = draw(dags(2, max_skel, False))
        members = {}
        edges = []
        cnt = 0
        names = []

        def fresh():
            nonlocal cnt
            cnt += 1
            return f"v{cnt}"

        forced = ch.below(len(sk_nodes))  # at least one skeleton node becomes a cyclic gadget
        for vi, v in enumerate(sk_nodes):
            g = ch.pick(GADGETS)
            if vi == forced and g == "node":
                g = ch.pick(GADGETS[1:3] + GADGETS[4:])
            if g == "node":
                ms = [fresh()]
            elif g == "loop":
                ms = [fresh()]
                edges.append((ms[0], ms[0]))
            elif g == "two":
                ms = [fresh(), fresh()]
                edges += [(ms[0], ms[1]), (ms[1], ms[0])]
            elif g == "tri":
                ms = [fresh(), fresh(), fresh()]
                edges += [(ms[0], ms[1]), (ms[1], ms[2]), (ms[2], ms[0])]
            elif g == "eight":
                ms = [fresh(), fresh(), fresh()]
                edges += [(ms[0], ms[1]), (ms[1], ms[0]), (ms[0], ms[2]), (ms[2], ms[0])]
            else:  # chord
                ms = [fresh(), fresh(), fresh()]
                edges += [(ms[0], ms[1]), (ms[1], ms[2]), (ms[2], ms[0]), (ms[1], ms[0])]
            members[v] = ms
            names += ms
        sk_src, sk_snk = sources_sinks(sk_nodes, sk_edges)
        kinds = {}
        for v in sk_nodes:
            ms = members[v]
            cyclic = any(e[0] in ms for e in edges)
            if cyclic and v in sk_src:
                for _ in range(1 + (1 if ch.coin(1, 4) else 0)):
                    p_ = fresh()
                    names.insert(0, p_)
                    edges.append((p_, ch.pick(ms)))
            if cyclic and v in sk_snk:
                for _ in range(1 + (1 if ch.coin(1, 4) else 0)):
                    p_ = fresh()
                    names.append(p_)
                    edges.append((ch.pick(ms), p_))
        for u, v in sk_edges:
            mult = 1 + (1 if ch.coin(1, 4) else 0)
            for _ in range(mult):
                e = (ch.pick(members[u]), ch.pick(members[v]))
                if e not in edges:
                    edges.append(e)
        nodes = names
        if len(nodes) > max_nodes:
            # drop nodes from the middle so that the pendant sources (front) and sinks (back) survive
            drop = len(nodes) - max_nodes
            mid = len(nodes) // 2
            nodes = nodes[: mid - drop // 2] + nodes[mid - drop // 2 + drop :]
            keep = set(nodes)
            edges = [e for e in edges if e[0] in keep and e[1] in keep]
        if odd_names:
            new = draw(node_names(len(nodes), True))
            ren = dict(zip(nodes, new))
            nodes = [ren[v] for v in nodes]
            edges = [(ren[u], ren[v]) for u, v in edges]
    else:
        n = draw(st.integers(3, min(5, max_nodes)))
        nodes = draw(node_names(n, odd_names))
        dens = draw(st.sampled_from([3, 4, 6]))
        edges = []
        for i in range(n):
            for j in range(n):
                if j == 0 or i == n - 1:
                    continue  # nodes[0] stays a source, nodes[-1] a sink
                if ch.below(8) < dens:
                    edges.append((nodes[i], nodes[j]))
        if not edges:
            edges = [(nodes[0], nodes[-1])]
    if core_only:
        nodes, edges = st_core(nodes, edges)
    if not edges:
        nodes, edges = ["a", "b"], [("a", "b")]
    return nodes, edges


def random_st_walk(ch, nodes, edges, target_len=6, cap=24, starts=None, ends=None):
    """Random source->sink walk with a bias towards staying inside cycles until target_len."""
    G = nx.DiGraph()
    G.add_nodes_from(nodes)
    G.add_edges_from(edges)
    srcs = [v for v in nodes if G.in_degree(v) == 0]
    snks = {v for v in nodes if G.out_degree(v) == 0}
    scc = {}
    for i, comp in enumerate(nx.strongly_connected_components(G)):
        for v in comp:
            scc[v] = i
    start_pool = sorted(set(srcs) | set(starts or []))
    end_set = set(ends or [])
    v = ch.pick(start_pool)
    walk = [v]
    while v not in snks:
        if v in end_set and ch.coin(1, 3):
            break
        succ = list(G.successors(v))
        if len(walk) >= cap:
            # finish along a shortest path to a sink
            best = None
            for t in sorted(snks | end_set):
                if nx.has_path(G, v, t):
                    p = nx.shortest_path(G, v, t)
                    if best is None or len(p) < len(best):
                        best = p
            walk += best[1:]
            break
        if len(walk) < target_len:
            inside = [w for w in succ if scc[w] == scc[v]]
            if inside and ch.coin(2, 3):
                succ = inside
        v = ch.pick(succ)
        walk.append(v)
    return walk


@st.composite
def planted_walk_flows(draw, max_nodes=6, max_walks=3, wmax=4, odd_names=True):
    """Cyclic instance = union of k0 planted source->sink walks, flow = superposition (positive ints)."""
    nodes, edges = draw(cyclic_digraphs(max_nodes=max_nodes, odd_names=odd_names))
    ch = draw(choosers(64))
    k0 = draw(st.integers(1, max_walks))
    planted = []
    for _ in range(k0):
        w = random_st_walk(ch, nodes, edges, target_len=2 + ch.below(6), cap=12)
        planted.append((w, 1 + ch.below(wmax)))
    flow = {}
    for w, x in planted:
        for e in zip(w[:-1], w[1:]):
            flow[e] = flow.get(e, 0) + x
    kept_edges = [e for e in edges if e in flow]
    used = {x for e in kept_edges for x in e}
    kept_nodes = [v for v in nodes if v in used]
    planted = [(w, x) for w, x in planted if len(w) >= 2]
    if not kept_edges:
        u, v = "a", "b"
        kept_nodes, kept_edges, flow, planted = [u, v], [(u, v)], {(u, v): 1}, [([u, v], 1)]
    return {"nodes": kept_nodes, "edges": kept_edges, "flow": flow, "planted": planted, "weight_type": "int"}
