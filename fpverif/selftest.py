"""Sensitivity self-test: apply one catalogued mutant (textual replacement) or one seeded patch to a scratch
copy of the repository (outside /repo and /verif), run the owning checks against it via FPVERIF_REPO and
expect a VIOLATION.  The scratch copy is removed afterwards.

usage: python -m fpverif.selftest [--only NAME ...] [--tier quick] [--seeded]
"""
import argparse
import json
import os
import shutil
import subprocess
import sys
import tempfile
import time

HERE = os.path.dirname(os.path.dirname(os.path.abspath(__file__)))


def make_copy(repo="/repo"):
    d = tempfile.mkdtemp(prefix="fpmut-", dir="/tmp")
    dst = os.path.join(d, "repo")
    shutil.copytree(repo, dst, ignore=shutil.ignore_patterns(".git", "__pycache__", "*.pdf", "docs", "*.egg-info"))
    return d, dst


def run_check(prop, repo_dir, tier, seed="1"):
    env = dict(os.environ, FPVERIF_REPO=repo_dir, VERIF_SEED=str(seed))
    t0 = time.time()
    p = subprocess.run([os.path.join(HERE, "check"), prop, "--tier", tier], env=env, capture_output=True, text=True)
    return p.returncode, p.stdout + p.stderr, time.time() - t0


def main():
    ap = argparse.ArgumentParser()
    ap.add_argument("--only", nargs="*")
    ap.add_argument("--tier", default="quick")
    ap.add_argument("--seeded", action="store_true", help="run the seeded/<id>/patch.diff changes instead of the catalogue")
    ap.add_argument("--props", nargs="*", help="override the properties to run")
    a = ap.parse_args()
    results = []
    if a.seeded:
        items = []
        sd = os.path.join(HERE, "seeded")
        for name in sorted(os.listdir(sd)):
            mp = os.path.join(sd, name, "meta.json")
            if os.path.exists(mp):
                meta = json.load(open(mp))
                if meta.get("superseded"):
                    print(f"(skipped {name}: superseded - {meta['superseded'][:90]}...)")
                    continue
                if not meta.get("detected_by"):
                    print(f"(note {name}: recorded as NOT detected by any check; running {meta['property']} for the record)")
                items.append({"name": name, "patch": os.path.join(sd, name, "patch.diff"), "props": meta.get("detected_by") or [meta["property"]]})
    else:
        items = json.load(open(os.path.join(HERE, "mutants", "catalogue.json")))
    for m in items:
        if a.only and m["name"] not in a.only:
            continue
        d, repo = make_copy()
        try:
            if "patch" in m:
                r = subprocess.run(["patch", "-p1", "-d", repo, "-i", m["patch"]], capture_output=True, text=True)
                if r.returncode != 0:
                    results.append((m["name"], "-", "PATCH-FAILED", r.stdout[-300:]))
                    continue
            else:
                fp = os.path.join(repo, m["file"])
                s = open(fp).read()
                if s.count(m["old"]) < 1:
                    results.append((m["name"], "-", "OLD-TEXT-NOT-FOUND", ""))
                    continue
                s = s.replace(m["old"], m["new"], 1 if not m.get("all") else -1)
                open(fp, "w").write(s)
            for prop in a.props or m["props"]:
                rc, out, dt = run_check(prop, repo, a.tier)
                tail = [l for l in out.splitlines() if l.startswith("VIOLATION") or "kind=" in l][:2]
                results.append((m["name"], prop, {1: "KILLED", 0: "SURVIVED"}.get(rc, f"rc={rc}"), f"{dt:.0f}s " + " | ".join(tail)[:260]))
                print(results[-1], flush=True)
        finally:
            shutil.rmtree(d, ignore_errors=True)
    print("\n== summary ==")
    for r in results:
        print(" ", *r)
    sys.exit(0 if all(r[2] == "KILLED" for r in results) else 1)


if __name__ == "__main__":
    main()
