"""Shared reference computations for the inexact models (k-Least-Absolute-Errors, k-Min-Path-Error)."""
from collections import Counter

import networkx as nx

from .models import expand_nodes
from .oracle import bf
from .oracle.routes import all_st_paths, walk_vectors


class Instance:
    """Edge-level view of a case: node mode is reduced to edge mode on the harness' own expansion."""

    def __init__(self, case, G):
        kw = case.get("kw", {})
        self.node_mode = kw.get("flow_attr_origin", "edge") == "node"
        self.starts = list(kw.get("additional_starts", []))
        self.ends = list(kw.get("additional_ends", []))
        ign = kw.get("elements_to_ignore", [])
        scal = kw.get("error_scaling", [])
        attr = case.get("flow_attr", "flow")
        if self.node_mode:
            self.H, self.ne = expand_nodes(G, attr)
            self.f = {self.ne[v]: d[attr] for v, d in G.nodes(data=True) if attr in d}
            self.ignored = {self.ne[v] for v in ign}
            self.scale = {self.ne[v]: s for v, s in scal}
            self.hstarts = [self.ne[v][0] for v in self.starts]
            self.hends = [self.ne[v][1] for v in self.ends]
        else:
            self.H = G
            self.ne = None
            self.f = {(u, v): d[attr] for u, v, d in G.edges(data=True) if attr in d}
            self.ignored = {tuple(e) for e in ign}
            self.scale = {tuple(e): s for e, s in scal}
            self.hstarts, self.hends = self.starts, self.ends
        # edge lengths as the DAG model defines them (length_attr; missing => 1; connector edges of the expansion => 0)
        la = kw.get("length_attr")
        self.edge_len = None
        if la is not None:
            if self.node_mode:
                self.edge_len = {e: 0 for e in self.H.edges()}
                for v, d in G.nodes(data=True):
                    self.edge_len[self.ne[v]] = d.get(la, 1)
            else:
                self.edge_len = {(u, v): d.get(la, 1) for u, v, d in G.edges(data=True)}
        self.ignored |= {e for e, s in self.scale.items() if s == 0}
        self.f_req = {e: v for e, v in self.f.items() if e not in self.ignored}
        self.G = G

    def mult_of(self, route):
        """Counter over oracle-level edges for a route given in caller node names."""
        if self.node_mode:
            c = Counter()
            for v in route:
                c[self.ne[v]] += 1
            for a, b in zip(route[:-1], route[1:]):
                c[(self.ne[a][1], self.ne[b][0])] += 1
            return c
        return Counter(zip(route[:-1], route[1:]))

    def lae_objective(self, routes, weights):
        acc = Counter()
        for r, w in zip(routes, weights):
            for e, m in self.mult_of(r).items():
                acc[e] += w * m
        return sum(self.scale.get(e, 1) * abs(fe - acc.get(e, 0)) for e, fe in self.f_req.items()), acc

    def dag_paths(self, limit=12):
        ps = all_st_paths(self.H, self.hstarts, self.hends, limit=limit)
        if ps is None:
            return None
        ps = [p for p in ps if len(p) >= 1]
        return [Counter(zip(p[:-1], p[1:])) for p in ps], ps

    def walk_family(self, cap_value, limit=60):
        cap = {e: cap_value for e in self.H.edges()}
        vecs, complete = walk_vectors(self.H, cap, self.hstarts, self.hends, limit=limit, max_len=40)
        return vecs, complete

    def model_caps(self, model):
        """The model's own per-edge repetition caps (edge_upper_bounds), re-keyed to the oracle-level edges."""
        ub = getattr(model, "edge_upper_bounds", None)
        if not isinstance(ub, dict):
            return None
        caps = {}
        if self.node_mode:
            back = {}
            for v, (a, b) in ((v, self.ne[v]) for v in self.G.nodes()):
                back[str(v) + ".0"], back[str(v) + ".1"] = a, b
            for (a, b), c in ub.items():
                if a in back and b in back:
                    caps[(back[a], back[b])] = c
        else:
            for (a, b), c in ub.items():
                if self.H.has_edge(a, b):
                    caps[(a, b)] = c
        if set(caps) != set(self.H.edges()):
            return None
        return caps

    def documented_caps(self):
        """Per-edge repetition cap as the inexact cyclic models document it (stDiGraph.compute_edge_max_reachable_value):
        the largest flow value among the edge itself, the edges reachable from its head and the edges that reach its
        tail (missing value = 0); 1 for an edge that lies in no cycle.  Recomputed here with plain reachability so that
        a known-finding match never rests on numbers read from the model under test."""
        H = self.H
        scc = {}
        for i, comp in enumerate(nx.strongly_connected_components(H)):
            for v in comp:
                scc[v] = i
        val = {e: float(self.f.get(e, 0)) for e in H.edges()}
        caps = {}
        for (a, b) in H.edges():
            if scc[a] != scc[b]:
                caps[(a, b)] = 1
                continue
            fwd = nx.descendants(H, b) | {b}
            bwd = nx.ancestors(H, a) | {a}
            best = val[(a, b)]
            for (x, y), w in val.items():
                if x in fwd or y in bwd:
                    best = max(best, w)
            caps[(a, b)] = best
        return caps

    def cap_explains_gap(self, model, ref_desc, best_of, obj_re, tol):
        """Does the documented repetition cap (documented_caps, not the numbers inside the model) account for a sub-optimal answer?
        False: the reference solution respects the caps, or something within the caps beats the returned solution.
        True: the reference needs a repetition above the cap on some edge and the complete family of walks within
        the caps contains nothing better than what the model returned. None: the reference exceeds the caps but the
        capped family could not be enumerated completely."""
        caps = self.documented_caps()
        if not isinstance(ref_desc, list) or not ref_desc:
            return False
        try:
            mults = [d if isinstance(d, dict) else self.mult_of(list(d)) for d in ref_desc]
        except Exception:
            return False
        if not any(m > caps.get(e, 0) for d in mults for e, m in d.items()):
            return False
        icaps = {e: int(c) for e, c in caps.items()}
        if sum(icaps.values()) > 60:
            return None
        vecs, complete = walk_vectors(self.H, icaps, self.hstarts, self.hends, limit=400, max_len=80)
        vecs = [v for v in vecs if sum(v.values()) > 0]
        if not complete:
            return None
        best, complete = best_of(vecs) if vecs else (None, True)
        if best is not None and best < obj_re - tol:
            return False
        return True if complete else None

    def route_len_factor(self, mult_counter, ranges, factors):
        """Path length as the DAG model defines it: number of edges of the route plus the two synthetic edges."""
        if not factors:
            return 1.0
        if self.edge_len is not None:
            length = sum(self.edge_len.get(e, 1) * m for e, m in mult_counter.items()) + 2
        else:
            length = sum(mult_counter.values()) + 2
        for (lo, hi), c in zip(ranges, factors):
            if lo <= length <= hi:
                return c
        return None
