#!/venv/bin/python
"""Regenerates the defect table of DESIGN.md section 7 from known_findings.json."""
import json, re
d = json.load(open('/verif/known_findings.json'))
rows = ["| id | property | status / commit | what failed |", "|---|---|---|---|"]
for f in d['findings']:
    what = re.sub(r"^fixed: property=\S+ \S+ ", "", f['what']).replace("|", "\\|")
    st = f"fixed `{f['commit']}`" if f['status'] == 'fixed' else 'known'
    rows.append(f"| {f['id']} | {f['property']} | {st} | {what} |")
s = open('/verif/DESIGN.md').read()
a = s.index("| id | property | status / commit | what failed |")
b = s.index("\n\n", a)
s = s[:a] + "\n".join(rows) + s[b:]
open('/verif/DESIGN.md', 'w').write(s)
print(len(rows) - 2, "rows")
